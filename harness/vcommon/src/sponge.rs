//! Fiat–Shamir sponge model: squeeze = Poseidon(digest, counter), counter += 1;
//! absorb(v...) : digest = PoseidonMany(digest + 1, v...), counter = 0.
use crate::Felt;
use starknet_crypto::{poseidon_hash, poseidon_hash_many};

#[derive(Clone, Debug, PartialEq)]
pub struct SpongeModel {
    pub digest: Felt,
    pub counter: Felt,
}

impl SpongeModel {
    pub fn new(digest: Felt) -> Self {
        SpongeModel { digest, counter: Felt::ZERO }
    }
    pub fn with_counter(digest: Felt, counter: Felt) -> Self {
        SpongeModel { digest, counter }
    }
    pub fn squeeze(&mut self) -> Felt {
        let out = poseidon_hash(self.digest, self.counter);
        self.counter += Felt::ONE;
        out
    }
    pub fn absorb(&mut self, values: &[Felt]) {
        let mut data = Vec::with_capacity(values.len() + 1);
        data.push(self.digest + Felt::ONE);
        data.extend_from_slice(values);
        self.digest = poseidon_hash_many(&data);
        self.counter = Felt::ZERO;
    }
    pub fn absorb_u64(&mut self, v: u64) {
        self.absorb(&[Felt::from(v)]);
    }
}
