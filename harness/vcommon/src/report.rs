//! Result accumulation shared by all monitors; serialised as one JSON object per harness run and
//! aggregated by /verif/check.py.
use serde_json::{json, Map, Value};
use std::collections::{BTreeMap, HashSet};

pub fn fnv(s: &str) -> u64 {
    let mut h: u64 = 0xcbf2_9ce4_8422_2325;
    for b in s.bytes() {
        h ^= b as u64;
        h = h.wrapping_mul(0x1000_0000_01b3);
    }
    h
}

#[derive(Default)]
pub struct Report {
    pub evaluations: u64,
    distinct: HashSet<u64>,
    pub counters: BTreeMap<String, u64>,
    pub samples: Vec<Value>,
    /// signature -> (count, what, replay)
    pub violations: BTreeMap<String, (u64, String, Value)>,
    pub inconclusive: Vec<String>,
    pub notes: Vec<String>,
    pub max_samples: usize,
}

impl Report {
    pub fn new() -> Self {
        Report { max_samples: 6, ..Default::default() }
    }
    /// one executed case; `key` identifies the concrete case, `nontrivial` per the check's rule
    pub fn case(&mut self, key: &str, nontrivial: bool) {
        self.evaluations += 1;
        if nontrivial {
            self.distinct.insert(fnv(key));
        }
    }
    pub fn distinct_nontrivial(&self) -> u64 {
        self.distinct.len() as u64
    }
    pub fn count(&mut self, name: &str, n: u64) {
        *self.counters.entry(name.to_string()).or_insert(0) += n;
    }
    pub fn inc(&mut self, name: &str) {
        self.count(name, 1);
    }
    pub fn sample(&mut self, v: Value) {
        if self.samples.len() < self.max_samples {
            self.samples.push(v);
        }
    }
    pub fn violation(&mut self, sig: &str, what: &str, replay: Value) {
        let e = self
            .violations
            .entry(sig.to_string())
            .or_insert_with(|| (0, what.to_string(), replay));
        e.0 += 1;
    }
    pub fn inconclusive(&mut self, why: &str) {
        if self.inconclusive.len() < 20 {
            self.inconclusive.push(why.to_string());
        }
    }
    pub fn note(&mut self, s: &str) {
        if self.notes.len() < 50 && !self.notes.iter().any(|n| n == s) {
            self.notes.push(s.to_string());
        }
    }
    pub fn merge(&mut self, o: Report) {
        self.evaluations += o.evaluations;
        self.distinct.extend(o.distinct);
        for (k, v) in o.counters {
            *self.counters.entry(k).or_insert(0) += v;
        }
        for s in o.samples {
            self.sample(s);
        }
        for (k, (n, w, r)) in o.violations {
            let e = self.violations.entry(k).or_insert_with(|| (0, w, r));
            e.0 += n;
        }
        for i in o.inconclusive {
            self.inconclusive(&i);
        }
        for n in o.notes {
            self.note(&n);
        }
    }
    pub fn to_json(&self) -> Value {
        let mut viol = vec![];
        for (sig, (n, what, replay)) in &self.violations {
            viol.push(json!({"sig": sig, "count": n, "what": what, "replay": replay}));
        }
        let mut counters = Map::new();
        for (k, v) in &self.counters {
            counters.insert(k.clone(), json!(v));
        }
        json!({
            "evaluations": self.evaluations,
            "distinct_nontrivial": self.distinct_nontrivial(),
            "counters": counters,
            "samples": self.samples,
            "violations": viol,
            "inconclusive": self.inconclusive,
            "notes": self.notes,
        })
    }
    pub fn write(&self, path: &str) {
        let s = serde_json::to_string(&self.to_json()).unwrap();
        if path == "-" {
            println!("{}", s);
        } else {
            let tmp = format!("{}.tmp", path);
            std::fs::write(&tmp, s).expect("write report");
            std::fs::rename(&tmp, path).expect("rename report");
        }
    }
}

/// tiny argv parser: --key value pairs and bare flags
pub struct Args {
    pub cmd: String,
    kv: BTreeMap<String, String>,
}

impl Args {
    pub fn parse() -> Args {
        let mut it = std::env::args().skip(1);
        let cmd = it.next().unwrap_or_default();
        let mut kv = BTreeMap::new();
        let rest: Vec<String> = it.collect();
        let mut i = 0;
        while i < rest.len() {
            if let Some(k) = rest[i].strip_prefix("--") {
                if i + 1 < rest.len() && !rest[i + 1].starts_with("--") {
                    kv.insert(k.to_string(), rest[i + 1].clone());
                    i += 2;
                } else {
                    kv.insert(k.to_string(), "1".to_string());
                    i += 1;
                }
            } else {
                i += 1;
            }
        }
        Args { cmd, kv }
    }
    pub fn get(&self, k: &str) -> Option<&str> {
        self.kv.get(k).map(|s| s.as_str())
    }
    pub fn str(&self, k: &str, d: &str) -> String {
        self.get(k).unwrap_or(d).to_string()
    }
    pub fn u64(&self, k: &str, d: u64) -> u64 {
        self.get(k).and_then(|s| s.parse().ok()).unwrap_or(d)
    }
    pub fn flag(&self, k: &str) -> bool {
        self.kv.contains_key(k)
    }
    pub fn thorough(&self) -> bool {
        self.str("tier", "quick") == "thorough"
    }
}
