//! Panic monitor: a process-wide panic hook that records where a panic happened (instead of
//! printing), and `catch`, which runs a closure under `catch_unwind` and returns that record.
use std::cell::RefCell;
use std::panic::{catch_unwind, AssertUnwindSafe};
use std::sync::Once;

#[derive(Clone, Debug)]
pub struct PanicRecord {
    pub file: String,
    pub line: u32,
    pub msg: String,
    /// first frame in a swiftness crate (only captured when `file` is not under the repository)
    pub frame: String,
}

impl PanicRecord {
    pub fn is_budget(&self) -> bool {
        self.msg.contains("VERIF_EVENT_BUDGET_EXCEEDED")
    }
    /// repo-relative file when the location is inside the repository
    pub fn repo_file(&self) -> Option<String> {
        self.file.find("/repo/").map(|i| self.file[i + 6..].to_string()).or_else(|| {
            if self.file.starts_with("crates/") || self.file.starts_with("cli/") || self.file.starts_with("proof_parser/") {
                Some(self.file.clone())
            } else {
                None
            }
        })
    }
    pub fn msg_class(&self) -> String {
        // message with digits and hex collapsed, so that values do not split one site into many
        let mut out = String::new();
        let mut last_hash = false;
        for ch in self.msg.chars() {
            let ch = if ch == '\n' || ch == '\t' { ' ' } else { ch };
            if ch.is_ascii_hexdigit() && (ch.is_ascii_digit() || last_hash) {
                if !last_hash {
                    out.push('#');
                }
                last_hash = true;
            } else {
                last_hash = false;
                out.push(ch);
            }
        }
        out.truncate(80);
        out
    }
}

thread_local! {
    static LAST: RefCell<Option<PanicRecord>> = const { RefCell::new(None) };
}

static INIT: Once = Once::new();

pub fn install() {
    INIT.call_once(|| {
        std::panic::set_hook(Box::new(|info| {
            let (file, line) = info
                .location()
                .map(|l| (l.file().to_string(), l.line()))
                .unwrap_or(("?".to_string(), 0));
            let msg = if let Some(s) = info.payload().downcast_ref::<&str>() {
                s.to_string()
            } else if let Some(s) = info.payload().downcast_ref::<String>() {
                s.clone()
            } else {
                "<non-string panic payload>".to_string()
            };
            let mut frame = String::new();
            let in_repo = file.contains("/repo/");
            if !in_repo && !msg.contains("VERIF_EVENT_BUDGET_EXCEEDED") {
                let bt = std::backtrace::Backtrace::force_capture().to_string();
                for l in bt.lines() {
                    let t = l.trim();
                    if let Some(pos) = t.find("swiftness") {
                        // "12: swiftness_fri::layer::compute_coset_elements"
                        let f = &t[pos..];
                        let f = f.split("::h").next().unwrap_or(f);
                        frame = f.to_string();
                        break;
                    }
                }
            }
            LAST.with(|l| *l.borrow_mut() = Some(PanicRecord { file, line, msg, frame }));
        }));
    });
}

pub fn catch<T>(f: impl FnOnce() -> T) -> Result<T, PanicRecord> {
    install();
    LAST.with(|l| *l.borrow_mut() = None);
    match catch_unwind(AssertUnwindSafe(f)) {
        Ok(v) => Ok(v),
        Err(_) => Err(LAST.with(|l| l.borrow_mut().take()).unwrap_or(PanicRecord {
            file: "?".into(),
            line: 0,
            msg: "panic without record".into(),
            frame: String::new(),
        })),
    }
}

/// run `n` items over `threads` worker threads (striding), each with its own report
pub fn par_run<F>(threads: usize, n: u64, f: F) -> crate::report::Report
where
    F: Fn(u64, &mut crate::report::Report) + Sync,
{
    let threads = threads.max(1);
    let mut total = crate::report::Report::new();
    let reports: Vec<crate::report::Report> = std::thread::scope(|s| {
        let hs: Vec<_> = (0..threads)
            .map(|t| {
                let f = &f;
                std::thread::Builder::new()
                    .stack_size(256 << 20)
                    .spawn_scoped(s, move || {
                        let mut rep = crate::report::Report::new();
                        let mut i = t as u64;
                        while i < n {
                            f(i, &mut rep);
                            i += threads as u64;
                        }
                        rep
                    })
                    .unwrap()
            })
            .collect();
        hs.into_iter().map(|h| h.join().expect("worker thread died")).collect()
    });
    for r in reports {
        total.merge(r);
    }
    total
}

pub fn n_threads() -> usize {
    std::env::var("VERIF_THREADS")
        .ok()
        .and_then(|s| s.parse().ok())
        .unwrap_or_else(|| std::thread::available_parallelism().map(|n| n.get()).unwrap_or(4))
}
