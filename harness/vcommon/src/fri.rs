//! Coefficient-space FRI prover model, written from the protocol description.
//!
//! Domain point of index i in a layer of 2^bits points is g^bitrev(i) with g = 3^((p-1)/2^bits)
//! (the verifier is handed 3·g^bitrev(i) for the input layer). A layer's table has one row per
//! coset of 2^s consecutive indices. Folding with challenge e:
//!   P(x) = Σ_j x^j P_j(x^(2^s))  ↦  2^s · Σ_j e^j P_j(y).
//! The layer root is absorbed, then the layer's challenge is squeezed.
use crate::merkle::{Table, TreeParams};
use crate::ntt;
use crate::sponge::SpongeModel;
use crate::{bitrev, root_of_unity, Felt, HashKind};
use std::collections::BTreeSet;

#[derive(Clone, Debug)]
pub struct FriParams {
    /// steps[0] must be 0; n_layers = steps.len()
    pub steps: Vec<u32>,
    /// log2 of the last layer degree bound
    pub lb: u32,
    /// log2 of the blow-up
    pub c: u32,
    pub n_friendly: u64,
    pub hash: HashKind,
    /// declared tree heights exceed the real ones by this much (rows beyond the real table are
    /// all-zero); 0 for an honest prover
    pub extra_height: u32,
}

impl FriParams {
    pub fn sum_steps(&self) -> u32 {
        self.steps.iter().sum()
    }
    pub fn m(&self) -> u32 {
        self.sum_steps() + self.lb + self.c
    }
    pub fn degree_bound_log(&self) -> u32 {
        self.sum_steps() + self.lb
    }
    /// height of inner layer i's table (i in 0..n_layers-1)
    pub fn layer_height(&self, i: usize) -> u32 {
        self.m() - self.steps[1..=i + 1].iter().sum::<u32>()
    }
}

pub struct FriProof {
    pub params: FriParams,
    /// input layer evaluations, verifier order (index i ↦ P(w^bitrev(i)))
    pub input: Vec<Felt>,
    /// evaluations of inner layer i (i = 0 is the input layer itself: step 0 folds nothing)
    pub layers: Vec<Vec<Felt>>,
    pub tables: Vec<Table>,
    pub roots: Vec<Felt>,
    pub challenges: Vec<Felt>,
    /// full coefficient vector after the last fold (length 2^(lb+c)); honest ⇒ upper part zero
    pub last_full: Vec<Felt>,
}

pub struct LayerOpening {
    pub leaves: Vec<Felt>,
    pub authentications: Vec<Felt>,
    /// (coset index, all coset values) – what the verifier should reconstruct
    pub cosets: Vec<u128>,
    pub rows: Vec<Felt>,
}

/// fold coefficients: P ↦ 2^s Σ_j e^j P_j
pub fn fold_coefficients(coef: &[Felt], s: u32, e: Felt) -> Vec<Felt> {
    let cs = 1usize << s;
    let n = (coef.len() + cs - 1) / cs;
    let mut out = vec![Felt::ZERO; n.max(1)];
    let mut ej = Felt::ONE;
    for j in 0..cs {
        for k in 0..n {
            if let Some(c) = coef.get(k * cs + j) {
                out[k] += ej * c;
            }
        }
        ej *= e;
    }
    let f = Felt::from(cs as u64);
    for v in out.iter_mut() {
        *v *= f;
    }
    out
}

impl FriProof {
    /// Run the commit phase on the polynomial with coefficients `coef` (degree < 2^m; an honest
    /// prover has degree < 2^(m-c)). `sponge` is advanced exactly as the verifier's transcript.
    pub fn commit(params: FriParams, coef: &[Felt], sponge: &mut SpongeModel) -> FriProof {
        assert_eq!(params.steps[0], 0);
        let m = params.m();
        assert!(coef.len() <= 1usize << m);
        let mut cur = coef.to_vec();
        let mut bits = m;
        let input = ntt::evaluate_bitrev(&cur, bits);
        let mut layer = input.clone();
        let mut layers = vec![];
        let mut tables = vec![];
        let mut roots = vec![];
        let mut challenges = vec![];
        for (li, &s) in params.steps[1..].iter().enumerate() {
            let cs = 1usize << s;
            let h = bits - s;
            debug_assert_eq!(h, params.layer_height(li));
            let rows: Vec<Vec<Felt>> = layer.chunks(cs).map(|c| c.to_vec()).collect();
            let tp = TreeParams { height: h + params.extra_height, n_friendly: params.n_friendly, hash: params.hash };
            let table = if params.extra_height == 0 {
                Table::full(tp, cs, &rows)
            } else {
                let m: std::collections::BTreeMap<u128, Vec<Felt>> =
                    rows.iter().enumerate().map(|(i, r)| (i as u128, r.clone())).collect();
                Table::sparse(tp, cs, vec![Felt::ZERO; cs], m)
            };
            let root = table.root();
            sponge.absorb(&[root]);
            let e = sponge.squeeze();
            roots.push(root);
            challenges.push(e);
            layers.push(layer.clone());
            tables.push(table);
            cur = fold_coefficients(&cur, s, e);
            bits = h;
            layer = ntt::evaluate_bitrev(&cur, bits);
        }
        FriProof { params, input, layers, tables, roots, challenges, last_full: cur }
    }

    /// the last-layer message of an honest prover (first 2^lb coefficients)
    pub fn last_layer(&self) -> Vec<Felt> {
        let n = 1usize << self.params.lb;
        let mut v = self.last_full.clone();
        v.resize(n.max(v.len()), Felt::ZERO);
        v.truncate(n);
        v
    }

    /// true iff the folded polynomial really has degree < 2^lb
    pub fn last_layer_is_exact(&self) -> bool {
        self.last_full.iter().skip(1usize << self.params.lb).all(|c| *c == Felt::ZERO)
    }

    pub fn values_at(&self, queries: &[u128]) -> Vec<Felt> {
        queries.iter().map(|q| self.input[*q as usize]).collect()
    }

    /// the field points the verifier receives for the input layer
    pub fn points_at(&self, queries: &[u128]) -> Vec<Felt> {
        let m = self.params.m();
        let w = root_of_unity(m);
        queries.iter().map(|q| Felt::THREE * crate::pow_u128(w, bitrev(*q, m))).collect()
    }

    /// witnesses for a sorted, distinct query set, in the verifier's consumption order
    pub fn open(&self, queries: &[u128]) -> Vec<LayerOpening> {
        let mut cur: Vec<u128> = queries.to_vec();
        let mut out = vec![];
        for (li, &s) in self.params.steps[1..].iter().enumerate() {
            let cs = 1u128 << s;
            let qset: BTreeSet<u128> = cur.iter().cloned().collect();
            let cosets: Vec<u128> =
                cur.iter().map(|x| x / cs).collect::<BTreeSet<_>>().into_iter().collect();
            let mut leaves = vec![];
            for ci in &cosets {
                for j in 0..cs {
                    let idx = ci * cs + j;
                    if !qset.contains(&idx) {
                        leaves.push(self.layers[li][idx as usize]);
                    }
                }
            }
            let (rows, authentications) = self.tables[li].open(&cosets);
            out.push(LayerOpening { leaves, authentications, cosets: cosets.clone(), rows });
            cur = cosets;
        }
        out
    }
}

pub fn default_hash() -> HashKind {
    HashKind::Keccak160
}
