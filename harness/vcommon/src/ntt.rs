//! Plain radix-2 NTT over the Stark field (oracle-side polynomial arithmetic).
use crate::{bitrev, inv, root_of_unity, Felt};

/// evaluations of the polynomial with coefficients `coef` (padded with zeros to 2^m) on
/// w^0, w^1, ..., w^(2^m-1) (natural order), w = root_of_unity(m)
pub fn evaluate(coef: &[Felt], m: u32) -> Vec<Felt> {
    let n = 1usize << m;
    assert!(coef.len() <= n);
    let mut a = vec![Felt::ZERO; n];
    a[..coef.len()].copy_from_slice(coef);
    ntt_in_place(&mut a, root_of_unity(m), m);
    a
}

/// evaluations in the verifier's order: position i holds P(w^bitrev(i))
pub fn evaluate_bitrev(coef: &[Felt], m: u32) -> Vec<Felt> {
    let nat = evaluate(coef, m);
    (0..nat.len()).map(|i| nat[bitrev(i as u128, m) as usize]).collect()
}

/// inverse: from natural-order evaluations on the 2^m-th roots of unity to coefficients
pub fn interpolate(evals: &[Felt], m: u32) -> Vec<Felt> {
    let n = 1usize << m;
    assert_eq!(evals.len(), n);
    let mut a = evals.to_vec();
    ntt_in_place(&mut a, inv(root_of_unity(m)), m);
    let ninv = inv(Felt::from(n as u64));
    for v in a.iter_mut() {
        *v *= ninv;
    }
    a
}

fn ntt_in_place(a: &mut [Felt], w: Felt, m: u32) {
    let n = a.len();
    // bit-reversal permutation
    for i in 0..n {
        let j = bitrev(i as u128, m) as usize;
        if i < j {
            a.swap(i, j);
        }
    }
    let mut len = 2;
    while len <= n {
        // w_len = w^(n/len)
        let mut wl = w;
        let mut k = n / len;
        while k > 1 {
            wl = wl * wl;
            k /= 2;
        }
        let half = len / 2;
        let mut tw = Vec::with_capacity(half);
        let mut t = Felt::ONE;
        for _ in 0..half {
            tw.push(t);
            t *= wl;
        }
        let mut start = 0;
        while start < n {
            for j in 0..half {
                let u = a[start + j];
                let v = a[start + j + half] * tw[j];
                a[start + j] = u + v;
                a[start + j + half] = u - v;
            }
            start += len;
        }
        len *= 2;
    }
}
