//! Reference models and utilities shared by the runtime monitors.
//!
//! Nothing in this crate depends on any swiftness crate: the models are written from the protocol
//! description and use only the cryptographic primitives (`starknet-crypto`, `sha3`, `blake2`,
//! `num-bigint`) which are the declared trusted base.
pub mod fri;
pub mod guard;
pub mod merkle;
pub mod ntt;
pub mod pow;
pub mod report;
pub mod sponge;

pub use starknet_crypto::Felt;

use num_bigint::BigUint;

/// splitmix64 – the only source of randomness; everything derives from VERIF_SEED.
#[derive(Clone)]
pub struct Rng(pub u64);

impl Rng {
    pub fn new(seed: u64) -> Self {
        Rng(seed.wrapping_mul(0x9E37_79B9_7F4A_7C15) ^ 0xD1B5_4A32_D192_ED03)
    }
    /// independent stream derived from a label
    pub fn fork(&self, label: &str) -> Rng {
        let mut h = self.0 ^ 0xA076_1D64_78BD_642F;
        for b in label.bytes() {
            h = (h ^ b as u64).wrapping_mul(0x1000_0000_01B3);
            h ^= h >> 29;
        }
        Rng(h)
    }
    pub fn next(&mut self) -> u64 {
        self.0 = self.0.wrapping_add(0x9E37_79B9_7F4A_7C15);
        let mut z = self.0;
        z = (z ^ (z >> 30)).wrapping_mul(0xBF58_476D_1CE4_E5B9);
        z = (z ^ (z >> 27)).wrapping_mul(0x94D0_49BB_1331_11EB);
        z ^ (z >> 31)
    }
    pub fn below(&mut self, n: u64) -> u64 {
        if n == 0 {
            0
        } else {
            self.next() % n
        }
    }
    pub fn range(&mut self, lo: u64, hi_incl: u64) -> u64 {
        lo + self.below(hi_incl - lo + 1)
    }
    pub fn chance(&mut self, num: u64, den: u64) -> bool {
        self.below(den) < num
    }
    pub fn felt(&mut self) -> Felt {
        let mut b = [0u8; 32];
        for i in 0..4 {
            b[i * 8..i * 8 + 8].copy_from_slice(&self.next().to_be_bytes());
        }
        b[0] &= 0x07; // < 2^251 < p
        Felt::from_bytes_be(&b)
    }
    pub fn pick<'a, T>(&mut self, xs: &'a [T]) -> &'a T {
        &xs[self.below(xs.len() as u64) as usize]
    }
    pub fn shuffle<T>(&mut self, xs: &mut [T]) {
        for i in (1..xs.len()).rev() {
            let j = self.below(i as u64 + 1) as usize;
            xs.swap(i, j);
        }
    }
    /// `k` distinct sorted values below `n` (k <= n)
    pub fn distinct_sorted(&mut self, k: usize, n: u128) -> Vec<u128> {
        let mut s = std::collections::BTreeSet::new();
        if (k as u128) * 2 > n {
            // dense: shuffle
            let mut all: Vec<u128> = (0..n).collect();
            self.shuffle(&mut all);
            all.truncate(k);
            all.sort();
            return all;
        }
        while s.len() < k {
            let v = ((self.next() as u128) << 64 | self.next() as u128) % n;
            s.insert(v);
        }
        s.into_iter().collect()
    }
}

pub fn prime() -> BigUint {
    (BigUint::from(1u8) << 251) + (BigUint::from(17u8) << 192) + BigUint::from(1u8)
}

/// multiplicative order of 2 in the field (p-1 = 2^192 * 5 * 7 * 98714381 * 166848103), computed, not assumed:
/// exponents of 2 that differ by a multiple of it give the same power, so a bound placed on 2^x instead
/// of on x admits x + k*ord2()
pub fn ord2() -> BigUint {
    let p = prime();
    let two = BigUint::from(2u8);
    let mut n = &p - BigUint::from(1u8);
    let factors: [u64; 5] = [2, 5, 7, 98714381, 166848103];
    let mut check = BigUint::from(1u8) << 192;
    for q in &factors[1..] {
        check *= BigUint::from(*q);
    }
    assert_eq!(check, n, "factorisation of p-1");
    for q in factors {
        let q = BigUint::from(q);
        while (&n % &q) == BigUint::from(0u8) && two.modpow(&(&n / &q), &p) == BigUint::from(1u8) {
            n /= &q;
        }
    }
    assert_eq!(two.modpow(&n, &p), BigUint::from(1u8));
    n
}

pub fn felt_from_big(b: &BigUint) -> Felt {
    let r = b % prime();
    let bytes = r.to_bytes_be();
    let mut buf = [0u8; 32];
    buf[32 - bytes.len()..].copy_from_slice(&bytes);
    Felt::from_bytes_be(&buf)
}

pub fn big(f: &Felt) -> BigUint {
    BigUint::from_bytes_be(&f.to_bytes_be())
}

pub fn fu64(f: &Felt) -> Option<u64> {
    let b = big(f);
    u64::try_from(b).ok()
}

pub fn fu128(f: &Felt) -> Option<u128> {
    u128::try_from(big(f)).ok()
}

pub fn hex(f: &Felt) -> String {
    format!("{:#x}", f)
}

/// Montgomery constant R = 2^256 mod p, computed from first principles.
pub fn montgomery_r() -> Felt {
    felt_from_big(&(BigUint::from(1u8) << 256))
}

/// bit reverse of the low `bits` bits, via string reversal (deliberately naive).
pub fn bitrev(i: u128, bits: u32) -> u128 {
    let mut r = 0u128;
    for k in 0..bits {
        if (i >> k) & 1 == 1 {
            r |= 1u128 << (bits - 1 - k);
        }
    }
    r
}

/// generator of the multiplicative subgroup of order 2^m: 3^((p-1)/2^m)
pub fn root_of_unity(m: u32) -> Felt {
    let pm1 = prime() - BigUint::from(1u8);
    assert!(m <= 192);
    let e = pm1 >> m;
    pow_big(Felt::THREE, &e)
}

pub fn pow_big(base: Felt, e: &BigUint) -> Felt {
    let mut acc = Felt::ONE;
    let bits = e.bits();
    for i in (0..bits).rev() {
        acc = acc * acc;
        if e.bit(i) {
            acc *= base;
        }
    }
    acc
}

pub fn pow_u128(base: Felt, e: u128) -> Felt {
    pow_big(base, &BigUint::from(e))
}

pub fn inv(f: Felt) -> Felt {
    f.inverse().expect("inverse of zero")
}

pub fn horner(c: &[Felt], x: Felt) -> Felt {
    c.iter().rev().fold(Felt::ZERO, |a, k| a * x + k)
}

#[derive(Clone, Copy, Debug, PartialEq, Eq)]
pub enum HashKind {
    Keccak160,
    Keccak248,
    Blake160,
    Blake248,
}

impl HashKind {
    pub fn name(&self) -> &'static str {
        match self {
            HashKind::Keccak160 => "keccak_160_lsb",
            HashKind::Keccak248 => "keccak_248_lsb",
            HashKind::Blake160 => "blake2s_160_lsb",
            HashKind::Blake248 => "blake2s_248_lsb",
        }
    }
    pub fn from_name(s: &str) -> Option<Self> {
        Some(match s {
            "keccak_160_lsb" => HashKind::Keccak160,
            "keccak_248_lsb" => HashKind::Keccak248,
            "blake2s_160_lsb" => HashKind::Blake160,
            "blake2s_248_lsb" => HashKind::Blake248,
            _ => return None,
        })
    }
    pub fn is_keccak(&self) -> bool {
        matches!(self, HashKind::Keccak160 | HashKind::Keccak248)
    }
    pub fn mask_bits(&self) -> u32 {
        match self {
            HashKind::Keccak160 | HashKind::Blake160 => 160,
            _ => 248,
        }
    }
    /// raw 32-byte digest of the build's hash function
    pub fn digest(&self, data: &[u8]) -> [u8; 32] {
        if self.is_keccak() {
            use sha3::{Digest, Keccak256};
            let mut h = Keccak256::new();
            h.update(data);
            h.finalize().into()
        } else {
            use blake2::{Blake2s256, Digest};
            let mut h = Blake2s256::new();
            h.update(data);
            h.finalize().into()
        }
    }
    /// H(data) reduced to its low 160 / 248 bits, through integer arithmetic (not byte slicing)
    pub fn masked(&self, data: &[u8]) -> Felt {
        let d = BigUint::from_bytes_be(&self.digest(data));
        let m = d % (BigUint::from(1u8) << self.mask_bits());
        felt_from_big(&m)
    }
}
