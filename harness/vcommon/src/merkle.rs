//! Merkle vector / table commitment models (prover side), written from the protocol description.
//!
//! Depth 0 is the root, depth `height` the leaves. Two children at depth `d` are hashed with
//! Poseidon when `n_friendly >= d`, otherwise with the masked hash of their 32-byte big-endian
//! encodings. Table rows sit at depth `height + 1`: a one-column row is the (Montgomery) cell
//! itself, otherwise Poseidon-many when `n_friendly >= height + 1`, else the masked hash of the
//! concatenated big-endian Montgomery cells.
use crate::{montgomery_r, Felt, HashKind};
use starknet_crypto::{poseidon_hash, poseidon_hash_many};
use std::collections::{BTreeMap, BTreeSet};

#[derive(Clone, Copy, Debug)]
pub struct TreeParams {
    pub height: u32,
    pub n_friendly: u64,
    pub hash: HashKind,
}

pub fn node_hash(p: &TreeParams, child_depth: u32, l: Felt, r: Felt) -> Felt {
    if p.n_friendly >= child_depth as u64 {
        poseidon_hash(l, r)
    } else {
        let mut data = Vec::with_capacity(64);
        data.extend_from_slice(&l.to_bytes_be());
        data.extend_from_slice(&r.to_bytes_be());
        p.hash.masked(&data)
    }
}

/// row hash of a table commitment (cells given in standard form)
pub fn row_hash(p: &TreeParams, row: &[Felt]) -> Felt {
    row_hash_with_r(p, row, montgomery_r())
}

pub fn row_hash_with_r(p: &TreeParams, row: &[Felt], r: Felt) -> Felt {
    let m: Vec<Felt> = row.iter().map(|c| *c * r).collect();
    if m.len() == 1 {
        m[0]
    } else if p.n_friendly >= p.height as u64 + 1 {
        poseidon_hash_many(&m)
    } else {
        let mut data = Vec::with_capacity(32 * m.len());
        for c in &m {
            data.extend_from_slice(&c.to_bytes_be());
        }
        p.hash.masked(&data)
    }
}

/// A Merkle tree given by a default leaf plus a sparse set of special leaves; heights up to 120.
/// A full tree is the special case where every leaf is special.
#[derive(Clone)]
pub struct Tree {
    pub p: TreeParams,
    /// default node value per depth (index 0..=height)
    pub default: Vec<Felt>,
    /// per depth: explicit nodes (those whose subtree contains a special leaf), by index in level
    pub nodes: Vec<BTreeMap<u128, Felt>>,
}

impl Tree {
    pub fn sparse(p: TreeParams, default_leaf: Felt, special: &BTreeMap<u128, Felt>) -> Tree {
        let h = p.height as usize;
        let mut default = vec![Felt::ZERO; h + 1];
        default[h] = default_leaf;
        for d in (0..h).rev() {
            default[d] = node_hash(&p, d as u32 + 1, default[d + 1], default[d + 1]);
        }
        let mut nodes: Vec<BTreeMap<u128, Felt>> = vec![BTreeMap::new(); h + 1];
        nodes[h] = special.clone();
        for d in (0..h).rev() {
            let parents: BTreeSet<u128> = nodes[d + 1].keys().map(|k| k >> 1).collect();
            let mut lvl = BTreeMap::new();
            for k in parents {
                let l = *nodes[d + 1].get(&(2 * k)).unwrap_or(&default[d + 1]);
                let r = *nodes[d + 1].get(&(2 * k + 1)).unwrap_or(&default[d + 1]);
                lvl.insert(k, node_hash(&p, d as u32 + 1, l, r));
            }
            nodes[d] = lvl;
        }
        Tree { p, default, nodes }
    }

    pub fn full(p: TreeParams, leaves: &[Felt]) -> Tree {
        assert_eq!(leaves.len() as u128, 1u128 << p.height);
        let special: BTreeMap<u128, Felt> =
            leaves.iter().enumerate().map(|(i, v)| (i as u128, *v)).collect();
        Tree::sparse(p, Felt::ZERO, &special)
    }

    pub fn node(&self, depth: u32, idx: u128) -> Felt {
        *self.nodes[depth as usize].get(&idx).unwrap_or(&self.default[depth as usize])
    }

    pub fn root(&self) -> Felt {
        self.node(0, 0)
    }

    pub fn leaf(&self, idx: u128) -> Felt {
        self.node(self.p.height, idx)
    }

    /// authentication nodes for a sorted set of distinct leaf indices, in the order a verifier
    /// consumes them: bottom layer up, left to right, a sibling only when it is not itself known.
    pub fn witness(&self, queries: &[u128]) -> Vec<Felt> {
        let mut known: BTreeSet<u128> = queries.iter().cloned().collect();
        let mut out = vec![];
        for d in (1..=self.p.height).rev() {
            let mut next = BTreeSet::new();
            for &k in &known {
                if !known.contains(&(k ^ 1)) {
                    out.push(self.node(d, k ^ 1));
                }
                next.insert(k >> 1);
            }
            known = next;
        }
        out
    }
}

/// Table = rows of cells; a Tree over the row hashes.
#[derive(Clone)]
pub struct Table {
    pub tree: Tree,
    pub n_columns: usize,
    pub default_row: Vec<Felt>,
    pub rows: BTreeMap<u128, Vec<Felt>>,
}

impl Table {
    pub fn sparse(
        p: TreeParams,
        n_columns: usize,
        default_row: Vec<Felt>,
        rows: BTreeMap<u128, Vec<Felt>>,
    ) -> Table {
        assert_eq!(default_row.len(), n_columns);
        let special: BTreeMap<u128, Felt> =
            rows.iter().map(|(i, r)| (*i, row_hash(&p, r))).collect();
        let tree = Tree::sparse(p, row_hash(&p, &default_row), &special);
        Table { tree, n_columns, default_row, rows }
    }
    pub fn full(p: TreeParams, n_columns: usize, rows: &[Vec<Felt>]) -> Table {
        assert_eq!(rows.len() as u128, 1u128 << p.height);
        let m: BTreeMap<u128, Vec<Felt>> =
            rows.iter().enumerate().map(|(i, r)| (i as u128, r.clone())).collect();
        Table::sparse(p, n_columns, vec![Felt::ZERO; n_columns], m)
    }
    pub fn row(&self, idx: u128) -> &Vec<Felt> {
        self.rows.get(&idx).unwrap_or(&self.default_row)
    }
    pub fn root(&self) -> Felt {
        self.tree.root()
    }
    /// (flattened row values, authentication nodes) for sorted distinct row indices
    pub fn open(&self, queries: &[u128]) -> (Vec<Felt>, Vec<Felt>) {
        let mut vals = vec![];
        for q in queries {
            vals.extend_from_slice(self.row(*q));
        }
        (vals, self.tree.witness(queries))
    }
}
