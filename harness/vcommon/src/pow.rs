//! Proof-of-work oracle: H(H(0x0123456789abcded || digest || n) || nonce_be), leading zero bits.
use crate::HashKind;

pub fn pow_hash(kind: HashKind, digest: &[u8; 32], n_bits: u8, nonce: u64) -> [u8; 32] {
    let mut init = Vec::with_capacity(41);
    init.extend_from_slice(&[0x01, 0x23, 0x45, 0x67, 0x89, 0xab, 0xcd, 0xed]);
    init.extend_from_slice(digest);
    init.push(n_bits);
    let h1 = kind.digest(&init);
    let mut second = Vec::with_capacity(40);
    second.extend_from_slice(&h1);
    for k in (0..8).rev() {
        second.push(((nonce >> (8 * k)) & 0xff) as u8);
    }
    kind.digest(&second)
}

pub fn leading_zero_bits(h: &[u8; 32]) -> u32 {
    let mut n = 0;
    for b in h.iter() {
        if *b == 0 {
            n += 8;
        } else {
            n += b.leading_zeros();
            break;
        }
    }
    n
}

/// the oracle verdict
pub fn pow_ok(kind: HashKind, digest: &[u8; 32], n_bits: u8, nonce: u64) -> bool {
    leading_zero_bits(&pow_hash(kind, digest, n_bits, nonce)) >= n_bits as u32
}

/// search nonces from `start` for one whose hash has exactly `want` leading zero bits
/// (or at least `want` when `exact` is false); gives up after `max_tries`.
pub fn grind(
    kind: HashKind,
    digest: &[u8; 32],
    n_bits: u8,
    want: u32,
    exact: bool,
    start: u64,
    max_tries: u64,
) -> Option<u64> {
    let mut nonce = start;
    for _ in 0..max_tries {
        let lz = leading_zero_bits(&pow_hash(kind, digest, n_bits, nonce));
        if (exact && lz == want) || (!exact && lz >= want) {
            return Some(nonce);
        }
        nonce = nonce.wrapping_add(1);
    }
    None
}
