//! Component harness binary (also the Miri / ASan target): hcomp <cmd> [--seed n] [--tier t] [--out file]
use vcommon::report::Args;

fn main() {
    let args = Args::parse();
    vcommon::guard::install();
    let t0 = std::time::Instant::now();
    match vcomp::dispatch(&args) {
        Some(mut rep) => {
            rep.count("wall_ms", t0.elapsed().as_millis() as u64);
            rep.note(&format!("hash build: {}", vcomp::build_hash().name()));
            rep.write(&args.str("out", "-"));
        }
        None => {
            eprintln!("unknown command {:?}", args.cmd);
            std::process::exit(3);
        }
    }
}
