//! swiftness_air compiled WITHOUT its `std` feature: the same exhaustive C12 monitor as hfull's
//! `domains` command, against the no-std build of the crate (code under `cfg(not(feature = "std"))`
//! is otherwise never executed by any other leg). It is also the only SINGLE-LAYOUT build (recursive
//! only, no `dynamic` feature): `pistatic` runs a C13 binding monitor there.
#[path = "../../hfull/src/domains.rs"]
mod domains;
mod pistatic;

use vcommon::report::Args;

fn main() {
    let args = Args::parse();
    vcommon::guard::install();
    let t0 = std::time::Instant::now();
    let mut rep = match args.cmd.as_str() {
        "domains" => domains::run(&args),
        "pistatic" => pistatic::run(&args),
        other => {
            eprintln!("unknown command {other:?}");
            std::process::exit(3);
        }
    };
    rep.count("wall_ms", t0.elapsed().as_millis() as u64);
    rep.inc("nostd_build");
    rep.note("build: swiftness_air with default-features = false (no `std` feature)");
    rep.write(&args.str("out", "-"));
}
