//! C13 on a SINGLE-LAYOUT build — swiftness_air compiled with the `recursive` layout only (no
//! `dynamic` feature, no `std`): the all-layouts binary used by every other leg turns every layout
//! feature on, so code that is conditional on a layout feature behaves there as in a dynamic build.
//! Metamorphic monitor on the real `PublicInput::get_hash`: the digest must change when
//! `dynamic_params` goes from None to Some(..), when any single dynamic parameter changes, and when
//! any other field changes (a reduced version of hfull's `pihash`, which has the reference model).
use serde_json::json;
use starknet_crypto::Felt;
use swiftness_air::dynamic::DynamicParams;
use swiftness_air::public_memory::PublicInput;
use swiftness_air::types::{AddrValue, ContinuousPageHeader, Page, SegmentInfo};
use vcommon::guard::catch;
use vcommon::report::{Args, Report};
use vcommon::{hex, Rng};

struct Shape {
    scalars: [Felt; 6],
    dynamic: Option<Vec<usize>>,
    segments: Vec<(Felt, Felt)>,
    cells: Vec<(Felt, Felt)>,
    headers: Vec<[Felt; 4]>,
}

fn build(s: &Shape) -> PublicInput {
    PublicInput {
        log_n_steps: s.scalars[0],
        range_check_min: s.scalars[1],
        range_check_max: s.scalars[2],
        layout: s.scalars[3],
        dynamic_params: s.dynamic.clone().map(DynamicParams::from),
        segments: s.segments.iter().map(|(b, e)| SegmentInfo { begin_addr: *b, stop_ptr: *e }).collect(),
        padding_addr: s.scalars[4],
        padding_value: s.scalars[5],
        main_page: Page(s.cells.iter().map(|(a, v)| AddrValue { address: *a, value: *v }).collect()),
        continuous_page_headers: s.headers.iter().map(|h| ContinuousPageHeader { start_address: h[0], size: h[1], hash: h[2], prod: h[3] }).collect(),
    }
}

pub fn run(args: &Args) -> Report {
    let seed = args.u64("seed", 1);
    let thorough = args.thorough();
    let mut rep = Report::new();
    let mut rng = Rng::new(seed).fork("pistatic");
    // number of dynamic parameters: the only length DynamicParams::from accepts
    let n_dyn = match (1usize..2000).find(|n| catch(|| DynamicParams::from(vec![0usize; *n])).is_ok()) {
        Some(n) => n,
        None => {
            rep.inconclusive("no vector length is accepted by DynamicParams::from");
            return rep;
        }
    };
    rep.count("dynamic_params.len", n_dyn as u64);
    let n_cases = if thorough { 200 } else { 30 };
    for case in 0..n_cases {
        let nf = Felt::from(rng.below(200));
        let base = Shape {
            scalars: [Felt::from(rng.below(60)), Felt::from(rng.below(1 << 15)), Felt::from((1 << 15) + rng.below(1 << 15)), rng.felt(), Felt::from(rng.below(1 << 20)), rng.felt()],
            dynamic: None,
            segments: (0..rng.range(0, 12)).map(|_| (Felt::from(rng.below(1 << 30)), Felt::from(rng.below(1 << 30)))).collect(),
            cells: (0..rng.range(0, 40)).map(|_| (Felt::from(rng.below(1 << 30)), rng.felt())).collect(),
            headers: (0..rng.range(0, 3)).map(|_| [Felt::from(rng.below(1 << 30)), Felt::from(rng.below(1 << 10)), rng.felt(), rng.felt()]).collect(),
        };
        let digest = |s: &Shape| catch(|| build(s).get_hash(nf));
        let h_none = match digest(&base) {
            Ok(h) => h,
            Err(p) => {
                rep.violation("C13|static-build|panic", &format!("get_hash panicked at {}:{} {}", p.file, p.line, p.msg), json!({"case": case}));
                continue;
            }
        };
        rep.case(&format!("static|{case}|{}", hex(&h_none)), true);
        let d: Vec<usize> = (0..n_dyn).map(|_| rng.below(1 << 16) as usize).collect();
        let with = |dv: Vec<usize>| Shape { scalars: base.scalars, dynamic: Some(dv), segments: base.segments.clone(), cells: base.cells.clone(), headers: base.headers.clone() };
        let h_some = digest(&with(d.clone())).ok();
        rep.inc("static.none_vs_some");
        if h_some == Some(h_none) {
            rep.violation("C13|static-build|dynamic-params-unbound|none-vs-some", "single-layout build: the digest is the same with dynamic_params = None and dynamic_params = Some(..)", json!({"case": case, "seed": seed}));
        }
        let zeros = digest(&with(vec![0; n_dyn])).ok();
        if zeros == Some(h_none) {
            rep.violation("C13|static-build|dynamic-params-unbound|none-vs-zeros", "single-layout build: the digest is the same with dynamic_params = None and all-zero dynamic parameters", json!({"case": case, "seed": seed}));
        }
        let positions: Vec<usize> = if thorough || case == 0 { (0..n_dyn).collect() } else { (0..12).map(|_| rng.below(n_dyn as u64) as usize).collect() };
        for k in positions {
            let mut d2 = d.clone();
            d2[k] += 1;
            rep.inc("static.single_parameter_changes");
            rep.case(&format!("static|{case}|dyn{k}"), true);
            if digest(&with(d2)).ok() == h_some {
                rep.violation("C13|static-build|dynamic-param-unbound", &format!("single-layout build: dynamic parameter #{k} + 1 leaves the digest unchanged"), json!({"case": case, "seed": seed, "param": k}));
            }
        }
        // the other fields, one at a time (scalars; one segment bound; one cell; one header field except prod)
        for k in 0..6 {
            let mut s = with(d.clone());
            s.dynamic = None;
            s.scalars[k] += Felt::ONE;
            rep.inc("static.scalar_changes");
            if digest(&s).ok() == Some(h_none) {
                rep.violation(&format!("C13|static-build|scalar-unbound|{k}"), &format!("single-layout build: scalar field #{k} + 1 leaves the digest unchanged"), json!({"case": case, "seed": seed}));
            }
        }
        if !base.segments.is_empty() {
            let mut s = with(d.clone());
            s.dynamic = None;
            let i = rng.below(s.segments.len() as u64) as usize;
            s.segments[i].1 += Felt::ONE;
            if digest(&s).ok() == Some(h_none) {
                rep.violation("C13|static-build|segment-unbound", "single-layout build: a segment stop pointer + 1 leaves the digest unchanged", json!({"case": case, "seed": seed}));
            }
        }
        if !base.cells.is_empty() {
            let mut s = with(d.clone());
            s.dynamic = None;
            let i = rng.below(s.cells.len() as u64) as usize;
            s.cells[i].1 += Felt::ONE;
            if digest(&s).ok() == Some(h_none) {
                rep.violation("C13|static-build|cell-unbound", "single-layout build: a main-page value + 1 leaves the digest unchanged", json!({"case": case, "seed": seed}));
            }
        }
        for (i, _) in base.headers.iter().enumerate() {
            for f in 0..3 {
                let mut s = with(d.clone());
                s.dynamic = None;
                s.headers[i][f] += Felt::ONE;
                rep.inc("static.header_field_changes");
                if digest(&s).ok() == Some(h_none) {
                    rep.violation(&format!("C13|static-build|header-unbound|{f}"), &format!("single-layout build: field #{f} of page header {i} + 1 leaves the digest unchanged"), json!({"case": case, "seed": seed}));
                }
            }
        }
    }
    rep.note("single-layout build (recursive only, no `dynamic` feature, no `std`): None vs Some(random) vs Some(zeros), every dynamic parameter + 1 (all positions on the first case, 12 sampled on the others; all in thorough), every scalar, one segment bound, one cell, every header field except prod");
    rep
}
