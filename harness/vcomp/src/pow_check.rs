//! C09 — proof of work is accepted exactly when the double hash has the required zero bits.
use serde_json::json;
use swiftness_pow::{config::Config, pow::{verify_pow, UnsentCommitment}};
use swiftness_transcript::transcript::Transcript;
use vcommon::guard::{catch, n_threads, par_run};
use vcommon::pow::{grind, leading_zero_bits, pow_hash, pow_ok};
use vcommon::report::{Args, Report};
use vcommon::sponge::SpongeModel;
use vcommon::{hex, Felt, HashKind, Rng};

pub fn pow_kind() -> HashKind {
    // the PoW hash family follows the build's commitment hash family
    crate::build_hash()
}

fn compare(rep: &mut Report, kind: HashKind, digest: &[u8; 32], n: u8, nonce: u64, family: &str) {
    let lz = leading_zero_bits(&pow_hash(kind, digest, n, nonce));
    let expect = pow_ok(kind, digest, n, nonce);
    let d = *digest;
    let got = catch(move || verify_pow(d, n, nonce).is_ok());
    let key = format!("{}|{}|{}|{}", hex(&Felt::from_bytes_be(digest)), n, nonce, kind.name());
    // non-trivial: the outcome is decided within 2 bits of the threshold, or is an acceptance at n>=8
    rep.case(&key, (lz as i64 - n as i64).abs() <= 2 || (expect && n >= 8));
    rep.inc(&format!("{family}.{}", if expect { "oracle_accept" } else { "oracle_reject" }));
    let replay = json!({"hash": kind.name(), "digest": hex(&Felt::from_bytes_be(digest)), "n_bits": n, "nonce": nonce, "leading_zero_bits": lz});
    match got {
        Ok(g) if g == expect => {}
        Ok(true) => rep.violation("C09|accepted-below-threshold", &format!("nonce accepted although the hash has only {lz} leading zero bits (< {n})"), replay),
        Ok(false) => rep.violation("C09|rejected-at-threshold", &format!("nonce rejected although the hash has {lz} leading zero bits (>= {n})"), replay),
        Err(p) => rep.violation("C09|panicked", &format!("verify_pow panicked at {}:{} {}", p.file, p.line, p.msg), replay),
    }
}

pub fn run(args: &Args) -> Report {
    let seed = args.u64("seed", 1);
    let thorough = args.thorough();
    let kind = pow_kind();
    let base = Rng::new(seed).fork("pow").fork(if kind.is_keccak() { "keccak" } else { "blake2s" });
    let mut total = Report::new();

    // (1) exact threshold: for each n, nonces whose hash has exactly n-1, n, n+1 zero bits
    let max_n: u8 = if thorough { 24 } else { 19 };
    let mut tasks: Vec<(u8, u64)> = vec![];
    for n in 0..=max_n {
        let reps = if n <= 12 { 6 } else if n <= 16 { 3 } else if n <= 20 { 2 } else { 1 };
        for r in 0..reps {
            tasks.push((n, r));
        }
    }
    let rep = par_run(n_threads(), tasks.len() as u64, |i, rep| {
        let (n, r) = tasks[i as usize];
        let mut rng = base.fork(&format!("thr{n}.{r}"));
        let digest = rng.felt().to_bytes_be();
        let budget: u64 = 1u64 << (n as u32 + 4).min(27);
        for want in [n as i64 - 1, n as i64, n as i64 + 1] {
            if want < 0 {
                continue;
            }
            match grind(kind, &digest, n, want as u32, true, rng.next(), budget) {
                Some(nonce) => {
                    compare(rep, kind, &digest, n, nonce, "threshold");
                    rep.inc(&format!("threshold.lz_minus_n={}", want - n as i64));
                    if rep.samples.len() < 3 && n >= 12 {
                        rep.sample(json!({"n_bits": n, "nonce": nonce, "leading_zero_bits": want, "digest": hex(&Felt::from_bytes_be(&digest)), "expected_accept": want >= n as i64}));
                    }
                    // endianness probe: the byte-swapped nonce must follow the oracle as well
                    compare(rep, kind, &digest, n, nonce.swap_bytes(), "endianness");
                    let mut rd = digest;
                    rd.reverse();
                    compare(rep, kind, &rd, n, nonce, "endianness");
                }
                None => rep.inc("threshold.grind_gave_up"),
            }
        }
    });
    total.merge(rep);

    // (1b) high-difficulty triples from the committed cache (ground once, for minutes): difficulties
    // 33+ cannot be ground inside a check. The cache only supplies inputs; the oracle recomputes.
    if let Some(path) = args.get("powcache").map(|x| x.to_string()) {
        match std::fs::read_to_string(&path).ok().and_then(|t| serde_json::from_str::<serde_json::Value>(&t).ok()) {
            Some(v) => {
                let fam = if kind.is_keccak() { "keccak" } else { "blake" };
                for e in v["entries"].as_array().cloned().unwrap_or_default() {
                    if e["hash"].as_str() != Some(fam) {
                        continue;
                    }
                    let (Some(dh), Some(n), Some(nonce)) = (e["digest"].as_str(), e["n_bits"].as_u64(), e["nonce"].as_u64()) else { continue };
                    let Ok(df) = Felt::from_hex(dh) else { continue };
                    let digest = df.to_bytes_be();
                    let n = n as u8;
                    compare(&mut total, kind, &digest, n, nonce, "cache");
                    let ok = pow_ok(kind, &digest, n, nonce);
                    total.inc(&format!("cache.n_bits_{n}.{}", if ok { "oracle_accept" } else { "oracle_reject" }));
                    if ok && n >= 33 {
                        total.inc("cache.accepting_triples_at_33_bits_or_more");
                        // through commit as well: accepted, nonce absorbed
                        let mut t = Transcript::new(df);
                        let mut m = SpongeModel::new(df);
                        let r = UnsentCommitment { nonce }.commit(&mut t, &Config { n_bits: n });
                        m.absorb_u64(nonce);
                        if r.is_err() {
                            total.violation("C09|commit-rejected-good-nonce", "commit rejected a cached nonce that the oracle accepts", json!({"digest": dh, "n_bits": n, "nonce": nonce}));
                        } else if *t.digest() != m.digest {
                            total.violation("C09|commit-did-not-absorb-nonce", "after a successful commit the transcript is not absorb_u64(nonce) of the previous state", json!({"n_bits": n, "nonce": nonce}));
                        }
                    }
                }
            }
            None => total.note(&format!("pow cache {path} not readable; high-difficulty acceptances not sampled")),
        }
    }

    // (2) random triples over the whole difficulty range 0..=128
    let n_random: u64 = args.u64("n", if thorough { 200_000 } else { 20_000 });
    let rep = par_run(n_threads(), n_random, |i, rep| {
        let mut rng = base.fork(&format!("r{i}"));
        let digest = match rng.below(8) {
            0 => [0u8; 32],
            1 => (Felt::ZERO - Felt::ONE).to_bytes_be(),
            _ => rng.felt().to_bytes_be(),
        };
        let n: u8 = match rng.below(4) {
            0 => rng.range(0, 8) as u8,
            1 => rng.range(0, 128) as u8,
            2 => *rng.pick(&[0u8, 1, 7, 8, 9, 15, 16, 17, 20, 30, 32, 50, 63, 64, 65, 120, 127, 128]),
            _ => rng.range(9, 40) as u8,
        };
        let nonce = match rng.below(6) {
            0 => 0,
            1 => u64::MAX,
            2 => rng.below(256),
            _ => rng.next(),
        };
        compare(rep, kind, &digest, n, nonce, "random");
        rep.inc(&format!("random.n_bucket.{}", match n { 0..=8 => "0-8", 9..=24 => "9-24", 25..=64 => "25-64", _ => "65-128" }));
    });
    total.merge(rep);

    // (3) configuration validation: exhaustive over all 256 values
    for n in 0..=255u8 {
        let want = (20..=50).contains(&n);
        let got = catch(move || Config { n_bits: n }.validate().is_ok());
        total.case(&format!("cfg{n}"), true);
        total.inc("config_values");
        match got {
            Ok(g) if g == want => {}
            Ok(g) => total.violation(
                if g { "C09|config-accepted-out-of-range" } else { "C09|config-rejected-in-range" },
                &format!("pow config n_bits={n}: validate returned ok={g}, expected ok={want}"),
                json!({"n_bits": n}),
            ),
            Err(p) => total.violation("C09|config-panicked", &format!("panic {}:{}", p.file, p.line), json!({"n_bits": n})),
        }
    }

    // (4) commit: absorb order and failure atomicity (difficulty 10..=14 so that grinding is cheap)
    let n_commit: u64 = if thorough { 400 } else { 60 };
    let rep = par_run(n_threads(), n_commit, |i, rep| {
        let mut rng = base.fork(&format!("c{i}"));
        let d0 = rng.felt();
        // difficulties 0..=3 (every nonce is good at 0) and 10..=14
        let n: u8 = if i % 3 == 0 { (i / 3 % 4) as u8 } else { rng.range(10, 14) as u8 };
        let mut t = Transcript::new(d0);
        // put the transcript in a non-initial state
        let pre: Vec<Felt> = (0..rng.below(3)).map(|_| rng.felt()).collect();
        let mut m = SpongeModel::new(d0);
        for v in &pre {
            t.read_felt_from_prover(v);
            m.absorb(&[*v]);
        }
        for _ in 0..rng.below(3) {
            t.random_felt_to_prover();
            m.squeeze();
        }
        let digest = m.digest.to_bytes_be();
        let good = grind(kind, &digest, n, n as u32, false, rng.next(), 1 << 22);
        let bad = if n == 0 { None } else { grind(kind, &digest, n, n as u32 - 1, true, rng.next(), 1 << 22) };
        rep.case(&format!("commit|{}|{n}", hex(&d0)), true);
        if let Some(nonce) = bad {
            let before = (*t.digest(), *t.counter());
            let r = UnsentCommitment { nonce }.commit(&mut t, &Config { n_bits: n });
            rep.inc("commit.bad_nonce");
            if r.is_ok() {
                rep.violation("C09|commit-accepted-bad-nonce", "commit accepted a nonce below the threshold", json!({"digest": hex(&m.digest), "n_bits": n, "nonce": nonce}));
            } else if (*t.digest(), *t.counter()) != before {
                rep.violation("C09|commit-failed-but-absorbed", "a rejected nonce changed the transcript", json!({"digest": hex(&m.digest), "n_bits": n, "nonce": nonce}));
            }
        }
        if let Some(nonce) = good {
            let r = UnsentCommitment { nonce }.commit(&mut t, &Config { n_bits: n });
            rep.inc("commit.good_nonce");
            m.absorb_u64(nonce);
            if r.is_err() {
                rep.violation("C09|commit-rejected-good-nonce", "commit rejected a ground nonce", json!({"digest": hex(&m.digest), "n_bits": n, "nonce": nonce}));
            } else if *t.digest() != m.digest || *t.counter() != m.counter {
                rep.violation("C09|commit-did-not-absorb-nonce", "after a successful commit the transcript is not absorb_u64(nonce) of the previous state", json!({"n_bits": n, "nonce": nonce}));
            } else {
                rep.inc(&format!("commit.absorbed_at_n_bits.{}", if n < 4 { "0-3" } else { "10-14" }));
                // the next challenge depends on the nonce
                let a = t.random_felt_to_prover();
                if a != m.squeeze() {
                    rep.violation("C09|commit-next-challenge", "challenge after the nonce differs from the model", json!({"n_bits": n, "nonce": nonce}));
                }
            }
        }
    });
    total.merge(rep);
    total.note("threshold: nonces ground with the oracle to exactly n-1, n, n+1 leading zero bits; random: n in 0..=128; config: all 256 n_bits; commit: absorb order / atomicity");
    total
}
