//! Component-level monitors (transcript, Merkle/table commitments, FRI, proof of work): drive the
//! real swiftness functions with generated and hostile inputs and compare with the models.
pub mod fri_check;
pub mod merkle_check;
pub mod mini;
pub mod pow_check;
pub mod table_check;
pub mod transcript_check;

use vcommon::report::{Args, Report};
use vcommon::HashKind;

pub fn build_hash() -> HashKind {
    #[cfg(feature = "keccak_160_lsb")]
    return HashKind::Keccak160;
    #[cfg(feature = "keccak_248_lsb")]
    return HashKind::Keccak248;
    #[cfg(feature = "blake2s_160_lsb")]
    return HashKind::Blake160;
    #[cfg(feature = "blake2s_248_lsb")]
    return HashKind::Blake248;
}

/// dispatch of the component subcommands; returns None when `cmd` is not one of them
pub fn dispatch(args: &Args) -> Option<Report> {
    Some(match args.cmd.as_str() {
        "merkle" => merkle_check::run(args),
        "table" => table_check::run(args),
        "fri" => fri_check::run(args, false),
        "frisound" => fri_check::run(args, true),
        "transcript" => transcript_check::run(args),
        "pow" => pow_check::run(args),
        "mini" => mini::run(args),
        _ => return None,
    })
}
