//! C06 — FRI completeness and the folding formula; C07 — FRI rejects corruptions / high degree.
use serde_json::json;
use swiftness_commitment::table::{config::Config as TConfig, types::Witness as TWitness};
use swiftness_commitment::vector::{config::Config as VConfig, types::Witness as VWitness};
use swiftness_fri::{
    config::Config as FriConfig,
    formula::fri_formula,
    fri::{fri_commit, fri_verify},
    layer::{compute_next_layer, FriLayerComputationParams, FriLayerQuery},
    group::get_fri_group,
    types::{Commitment as FriCommitment, Decommitment, LayerWitness, UnsentCommitment, Witness},
};
use swiftness_transcript::transcript::Transcript;
use vcommon::fri::{FriParams, FriProof};
use vcommon::guard::{catch, n_threads, par_run};
use vcommon::report::{Args, Report};
use vcommon::sponge::SpongeModel;
use vcommon::{bitrev, hex, horner, inv, pow_u128, root_of_unity, Felt, Rng};

pub fn fri_config(p: &FriParams) -> FriConfig {
    let mut inner = vec![];
    for (i, s) in p.steps[1..].iter().enumerate() {
        inner.push(TConfig {
            n_columns: Felt::from(1u64 << s),
            vector: VConfig {
                height: Felt::from(p.layer_height(i) as u64),
                n_verifier_friendly_commitment_layers: Felt::from(p.n_friendly),
            },
        });
    }
    FriConfig {
        log_input_size: Felt::from(p.m() as u64),
        n_layers: Felt::from(p.steps.len() as u64),
        inner_layers: inner,
        fri_step_sizes: p.steps.iter().map(|s| Felt::from(*s as u64)).collect(),
        log_last_layer_degree_bound: Felt::from(p.lb as u64),
    }
}

#[derive(Clone, Debug)]
pub enum Corr {
    None,
    Value(usize),
    Point(usize),
    Leaf(usize, usize),
    Auth(usize, usize),
    /// change confined to the bits above the digest width
    AuthHigh(usize, usize),
    /// two cooperating edits: the queried value set to 0 and the honest value smuggled in as an
    /// extra sibling leaf at the position where a verifier would read that slot
    ZeroValuePlusLeaf(usize),
    AuthDrop(usize, usize),
    LeafDrop(usize, usize),
    RootPre(usize),
    RootPost(usize),
    EvalPoint(usize),
    LastPre(usize),
    LastPost(usize),
    LastLenPre(usize),
    LastLenPost(usize),
    /// query k listed twice, one copy carrying a wrong value (wrong copy first / second)
    DupQueryWrongValue(usize, bool),
    /// the configuration's layer count lowered by one, every vector left as the prover built it
    /// (surplus trailing entries): the function then exceeds the degree bound the configuration states
    NLayersMinusOne,
}

impl Corr {
    pub fn class(&self) -> &'static str {
        match self {
            Corr::None => "none",
            Corr::Value(_) => "input value",
            Corr::Point(_) => "query point",
            Corr::Leaf(..) => "sibling leaf",
            Corr::Auth(..) => "inner-layer authentication node",
            Corr::AuthHigh(..) => "inner-layer authentication node (high bits only)",
            Corr::ZeroValuePlusLeaf(_) => "input value zeroed + honest value as extra leaf",
            Corr::AuthDrop(..) => "inner-layer authentication node dropped",
            Corr::LeafDrop(..) => "sibling leaf dropped",
            Corr::RootPre(_) => "inner-layer commitment (before commit)",
            Corr::RootPost(_) => "inner-layer commitment (after commit)",
            Corr::EvalPoint(_) => "evaluation point (challenge)",
            Corr::LastPre(_) => "last-layer coefficient (before commit)",
            Corr::LastPost(_) => "last-layer coefficient (after commit)",
            Corr::LastLenPre(_) => "last-layer length (before commit)",
            Corr::LastLenPost(_) => "last-layer length (after commit)",
            Corr::DupQueryWrongValue(..) => "repeated query carrying a wrong value",
            Corr::NLayersMinusOne => "layer count lowered, surplus entries kept",
        }
    }
}

pub struct Instance {
    pub params: FriParams,
    pub seed: Felt,
    pub proof: FriProof,
    pub queries: Vec<u128>,
}

#[derive(Debug)]
pub enum Outcome {
    Accepted,
    Rejected(String),
    Panicked(String),
}

impl Instance {
    pub fn describe(&self, corr: &Corr) -> serde_json::Value {
        json!({
            "hash": self.params.hash.name(), "steps": self.params.steps, "log_last_layer_bound": self.params.lb,
            "log_blowup": self.params.c, "n_friendly": self.params.n_friendly, "log_input_size": self.params.m(),
            "transcript_seed": hex(&self.seed), "queries": self.queries.iter().map(|q| q.to_string()).collect::<Vec<_>>(),
            "degree_lt": self.proof.last_full.len() << self.params.sum_steps().min(40),
            "corruption": format!("{corr:?}"),
        })
    }

    /// run the real verifier on this instance with one corruption applied
    pub fn run_real(&self, corr: &Corr, rng: &mut Rng) -> Outcome {
        let p = &self.params;
        let mut cfg = fri_config(p);
        if let Corr::NLayersMinusOne = corr {
            cfg.n_layers -= Felt::ONE;
        }
        let mut queries_f: Vec<Felt> = self.queries.iter().map(|q| Felt::from(*q)).collect();
        let mut roots = self.proof.roots.clone();
        let mut last = self.proof.last_layer();
        let mut values = self.proof.values_at(&self.queries);
        let mut points = self.proof.points_at(&self.queries);
        let openings = self.proof.open(&self.queries);
        let mut layers: Vec<LayerWitness> = openings
            .iter()
            .map(|o| LayerWitness {
                leaves: o.leaves.clone(),
                table_witness: TWitness { vector: VWitness { authentications: o.authentications.clone() } },
            })
            .collect();
        let delta = loop {
            let d = rng.felt();
            if d != Felt::ZERO {
                break d;
            }
        };
        match corr {
            Corr::Value(i) => values[*i] += delta,
            Corr::Point(i) => points[*i] *= Felt::from(2 + rng.below(1000)),
            Corr::Leaf(l, j) => layers[*l].leaves[*j] += delta,
            Corr::Auth(l, j) => layers[*l].table_witness.vector.authentications[*j] += delta,
            Corr::AuthHigh(l, j) => layers[*l].table_witness.vector.authentications[*j] += pow_u128(Felt::TWO, if *j % 2 == 0 { 200 } else { 249 }),
            Corr::ZeroValuePlusLeaf(k) => {
                let cs = 1u128 << p.steps[1];
                let qk = self.queries[*k];
                let mut pos = 0usize;
                let mut cosets: Vec<u128> = self.queries.iter().map(|x| x / cs).collect();
                cosets.dedup();
                for ci in cosets {
                    for j in 0..cs {
                        let idx = ci * cs + j;
                        if idx == qk {
                            break;
                        }
                        if !self.queries.contains(&idx) {
                            pos += 1;
                        }
                    }
                    if ci == qk / cs {
                        break;
                    }
                }
                let honest = values[*k];
                values[*k] = Felt::ZERO;
                let at = pos.min(layers[0].leaves.len());
                layers[0].leaves.insert(at, honest);
            }
            Corr::AuthDrop(l, j) => {
                layers[*l].table_witness.vector.authentications.remove(*j);
            }
            Corr::LeafDrop(l, j) => {
                layers[*l].leaves.remove(*j);
            }
            Corr::RootPre(l) => roots[*l] += delta,
            Corr::LastPre(k) => last[*k] += delta,
            Corr::LastLenPre(n) => last.resize(*n, Felt::ZERO),
            Corr::DupQueryWrongValue(k, wrong_first) => {
                let (v, pt, q) = (values[*k], points[*k], queries_f[*k]);
                let at = if *wrong_first { *k } else { *k + 1 };
                values.insert(at, v + delta);
                points.insert(at, pt);
                queries_f.insert(at, q);
            }
            _ => {}
        }
        let unsent = UnsentCommitment { inner_layers: roots, last_layer_coefficients: last };
        let seed = self.seed;
        let com = catch(move || {
            let mut t = Transcript::new(seed);
            fri_commit(&mut t, unsent, cfg)
        });
        let mut com: FriCommitment = match com {
            Ok(c) => c,
            Err(pn) => return Outcome::Panicked(format!("fri_commit {}:{} {}", pn.file, pn.line, pn.msg)),
        };
        match corr {
            Corr::RootPost(l) => com.inner_layers[*l].vector_commitment.commitment_hash += delta,
            Corr::EvalPoint(l) => com.eval_points[*l] += delta,
            Corr::LastPost(k) => com.last_layer_coefficients[*k] += delta,
            Corr::LastLenPost(n) => com.last_layer_coefficients.resize(*n, Felt::ZERO),
            _ => {}
        }
        let qf = queries_f;
        let r = catch(move || {
            fri_verify(&qf, com, Decommitment { values, points }, Witness { layers })
                .map_err(|e| format!("{e:?}"))
        });
        match r {
            Ok(Ok(())) => Outcome::Accepted,
            Ok(Err(e)) => Outcome::Rejected(e),
            Err(pn) => Outcome::Panicked(format!("fri_verify {}:{} {}", pn.file, pn.line, pn.msg)),
        }
    }
}

pub fn gen_params(rng: &mut Rng, thorough: bool) -> FriParams {
    let hash = crate::build_hash();
    loop {
        let n_layers = match rng.below(8) {
            0 => 2,
            1 => 15,
            _ => rng.range(2, 9) as usize,
        };
        let style = rng.below(4);
        let mut steps = vec![0u32];
        for _ in 1..n_layers {
            steps.push(match style {
                0 => 1,
                1 => 4,
                _ => rng.range(1, 4) as u32,
            });
        }
        let lb = if rng.chance(1, 6) { 0 } else { rng.range(0, if thorough { 8 } else { 5 }) as u32 };
        let c = match rng.below(8) {
            0 => 0,
            _ => rng.range(1, 4) as u32,
        };
        let sum: u32 = steps.iter().sum();
        let m = sum + lb + c;
        let cap = if n_layers == 15 { 17 } else if thorough { 16 } else { 13 };
        if m > cap || m == 0 {
            continue;
        }
        // friendly count around the inner-layer heights
        let heights: Vec<u32> = (0..n_layers - 1).map(|i| m - steps[1..=i + 1].iter().sum::<u32>()).collect();
        let n_friendly = match rng.below(6) {
            0 => 0,
            1 => 1000,
            5 => *rng.pick(&[1u64 << 32, 1u64 << 40, u64::MAX]),
            2 => *rng.pick(&heights) as u64,
            3 => *rng.pick(&heights) as u64 + 1,
            _ => rng.range(0, m as u64 + 2),
        };
        return FriParams { steps, lb, c, n_friendly, hash, extra_height: 0 };
    }
}

pub fn gen_queries(rng: &mut Rng, p: &FriParams) -> Vec<u128> {
    let n = 1u128 << p.m();
    let kmax = if n < 48 { n as u64 } else { 48 };
    let k = match rng.below(5) {
        0 => 1,
        1 => kmax,
        _ => rng.range(1, kmax),
    } as usize;
    let mut q = rng.distinct_sorted(k, n);
    let cs0 = 1u128 << p.steps.get(1).cloned().unwrap_or(0);
    if rng.chance(1, 6) {
        // nothing but whole first-layer cosets (1..=3 of them): the first inner layer then needs no
        // sibling leaf at all, its authentication nodes are all that binds it
        let nc = (n / cs0).max(1);
        let kc = rng.range(1, 3.min(nc as u64)) as usize;
        let cosets = rng.distinct_sorted(kc, nc);
        let mut q: Vec<u128> = vec![];
        for c in cosets {
            q.extend(c * cs0..(c + 1) * cs0);
        }
        q.retain(|x| *x < n);
        q.sort();
        q.dedup();
        return q;
    }
    match rng.below(5) {
        0 => {
            // two queries in one coset
            let x = q[0];
            q.push(x ^ 1);
        }
        1 => {
            // a whole first-layer coset queried
            let start = (q[0] / cs0) * cs0;
            q.extend(start..start + cs0);
        }
        2 => q.extend([0, n - 1]),
        _ => {}
    }
    q.retain(|x| *x < n);
    q.sort();
    q.dedup();
    q
}

fn gen_poly(rng: &mut Rng, p: &FriParams, kind: u64) -> Vec<Felt> {
    let bound = 1usize << p.degree_bound_log();
    match kind {
        0 => vec![Felt::ZERO; bound],
        1 => {
            let mut v = vec![Felt::ZERO; bound];
            v[0] = rng.felt();
            v
        }
        2 => {
            // degree exactly bound-1, sparse
            let mut v = vec![Felt::ZERO; bound];
            v[bound - 1] = rng.felt() + Felt::ONE;
            v[0] = rng.felt();
            v
        }
        6 | 7 => {
            // divisible by x^(2^sum of steps): the honestly folded last layer has a zero constant term
            // (kind 7: the single monomial of maximal degree)
            let low = (1usize << p.sum_steps().min(40)).min(bound);
            let mut v: Vec<Felt> = (0..bound).map(|i| if i < low || kind == 7 { Felt::ZERO } else { rng.felt() }).collect();
            if kind == 7 {
                v[bound - 1] = rng.felt() + Felt::ONE;
            }
            v
        }
        _ => (0..bound).map(|_| rng.felt()).collect(),
    }
}

// ------------------------------------------------------------------------------------------------
// folding formula identities (C06 b)
pub fn formula_identities_pub(rep: &mut Report, rng: &mut Rng, n_cases: u64) {
    formula_identities(rep, rng, n_cases)
}

/// a tiny honest instance (2 layers, 2^4 domain) for the interpreter legs
pub fn make_small_instance(rng: &mut Rng) -> Instance {
    let params = FriParams { steps: vec![0, 2], lb: 1, c: 1, n_friendly: 2, hash: crate::build_hash(), extra_height: 0 };
    let coef: Vec<Felt> = (0..1usize << params.degree_bound_log()).map(|_| rng.felt()).collect();
    let seed = rng.felt();
    let mut sponge = SpongeModel::new(seed);
    let proof = FriProof::commit(params.clone(), &coef, &mut sponge);
    Instance { params, seed, proof, queries: vec![3, 9] }
}

fn formula_identities(rep: &mut Report, rng: &mut Rng, n_cases: u64) {
    for _ in 0..n_cases {
        let k = rng.range(1, 4) as u32;
        let bits = rng.range(k as u64, 8) as u32;
        let deg = rng.range(1, 64) as usize;
        let coef: Vec<Felt> = (0..deg).map(|_| rng.felt()).collect();
        let g = root_of_unity(bits);
        let b = match rng.below(5) {
            0 => Felt::ZERO,
            1 => Felt::ONE,
            _ => rng.felt(),
        };
        let cs = 1u128 << k;
        let n_cosets = 1u128 << (bits - k);
        let ci = rng.below(n_cosets as u64) as u128;
        let xs: Vec<Felt> = (0..cs).map(|j| pow_u128(g, bitrev(ci * cs + j, bits))).collect();
        let values: Vec<Felt> = xs.iter().map(|x| horner(&coef, *x)).collect();
        let x_inv = inv(xs[0]);
        // expected: 2^k * sum_j b^j P_j(y), y = x0^(2^k)
        let y = pow_u128(xs[0], cs);
        let mut expect = Felt::ZERO;
        let mut bj = Felt::ONE;
        for j in 0..cs as usize {
            let pj: Vec<Felt> = coef.iter().skip(j).step_by(cs as usize).cloned().collect();
            expect += bj * horner(&pj, y);
            bj *= b;
        }
        expect *= Felt::from(cs as u64);
        let key = format!("formula|{k}|{bits}|{ci}|{}|{}", hex(&b), hex(&coef[0]));
        rep.case(&key, true);
        rep.inc(&format!("formula.coset_size_{}", cs));
        let vals2 = values.clone();
        let got = catch(move || fri_formula(vals2, b, x_inv, Felt::from(cs as u64)).map_err(|e| format!("{e:?}")));
        let replay = json!({"k": k, "log_domain": bits, "coset": ci.to_string(), "challenge": hex(&b), "coefficients": coef.iter().map(hex).collect::<Vec<_>>()});
        match got {
            Ok(Ok(v)) if v == expect => {}
            Ok(Ok(_)) => rep.violation(&format!("C06|formula-mismatch|coset{cs}"), "fri_formula differs from 2^k * sum_j b^j P_j(y)", replay.clone()),
            Ok(Err(e)) => rep.violation(&format!("C06|formula-error|coset{cs}"), &format!("fri_formula returned {e}"), replay.clone()),
            Err(p) => rep.violation(&format!("C06|formula-panic|coset{cs}"), &format!("fri_formula panicked {}:{}", p.file, p.line), replay.clone()),
        }
        // compute_next_layer on one queried element of the coset: same value, index = coset index,
        // x_inv raised to the coset size
        let jq = rng.below(cs as u64) as usize;
        let mut queries = vec![FriLayerQuery { index: Felt::from(ci * cs + jq as u128), y_value: values[jq], x_inv_value: inv(xs[jq]) }];
        let mut sib: Vec<Felt> = values.iter().enumerate().filter(|(j, _)| *j != jq).map(|(_, v)| *v).collect();
        let got = catch(move || {
            compute_next_layer(&mut queries, &mut sib, FriLayerComputationParams { coset_size: Felt::from(cs as u64), fri_group: get_fri_group(), eval_point: b })
                .map(|(nq, vi, vy)| (nq.into_iter().map(|q| (q.index, q.y_value, q.x_inv_value)).collect::<Vec<_>>(), vi, vy))
                .map_err(|e| format!("{e:?}"))
        });
        rep.inc("next_layer.cases");
        match got {
            Ok(Ok((nq, vi, vy))) => {
                let ok = nq.len() == 1 && nq[0].0 == Felt::from(ci) && nq[0].1 == expect && nq[0].2 == inv(y) && vi == vec![Felt::from(ci)] && vy == values;
                if !ok {
                    rep.violation(&format!("C06|next-layer-mismatch|coset{cs}"), "compute_next_layer does not return (coset index, folded value, 1/y, coset values)", replay);
                }
            }
            Ok(Err(e)) => rep.violation(&format!("C06|next-layer-error|coset{cs}"), &e, replay),
            Err(p) => rep.violation(&format!("C06|next-layer-panic|coset{cs}"), &format!("{}:{} {}", p.file, p.line, p.msg), replay),
        }
    }
}

/// Honest FRI instance for a CONSTANT polynomial on a domain of up to 2^60 points: every layer is
/// constant, so all trees are level-constant (sparse model) and the whole proof costs O(height).
/// Exercises index arithmetic far beyond what materialised layers can reach.
pub fn huge_constant_run(rng: &mut Rng, corrupt: bool) -> (Outcome, serde_json::Value) {
    use vcommon::merkle::{Table, TreeParams};
    let hash = crate::build_hash();
    let (params, m) = loop {
        let n_layers = rng.range(6, 15) as usize;
        let mut steps = vec![0u32];
        for _ in 1..n_layers {
            steps.push(rng.range(2, 4) as u32);
        }
        let lb = rng.range(0, 8) as u32;
        let c = rng.range(1, 4) as u32;
        let p = FriParams { steps, lb, c, n_friendly: *rng.pick(&[0u64, 5, 20, 40, 1000]), hash, extra_height: 0 };
        let m = p.m();
        if (34..=60).contains(&m) {
            break (p, m);
        }
    };
    let c0 = rng.felt();
    let seed = rng.felt();
    let mut sponge = SpongeModel::new(seed);
    let mut v = c0;
    let mut tables = vec![];
    let mut roots = vec![];
    for (i, s) in params.steps[1..].iter().enumerate() {
        let cs = 1usize << s;
        let tp = TreeParams { height: params.layer_height(i), n_friendly: params.n_friendly, hash };
        let tb = Table::sparse(tp, cs, vec![v; cs], std::collections::BTreeMap::new());
        sponge.absorb(&[tb.root()]);
        let _e = sponge.squeeze();
        roots.push(tb.root());
        tables.push((tb, v));
        v *= Felt::from(cs as u64);
    }
    let mut last = vec![Felt::ZERO; 1usize << params.lb];
    last[0] = v;
    // queries on both sides of 2^32, some adjacent
    let n = 1u128 << m;
    let mut q: Vec<u128> = vec![rng.next() as u128 % (1u128 << 32), (1u128 << 32) + rng.next() as u128 % (1u128 << 20), n - 1 - (rng.next() as u128 % 1000), (rng.next() as u128) << (m - 34).min(20) ];
    q.retain(|x| *x < n);
    let extra = q[1] ^ 1;
    q.push(extra);
    q.sort();
    q.dedup();
    let w = root_of_unity(m);
    let mut values: Vec<Felt> = q.iter().map(|_| c0).collect();
    let points: Vec<Felt> = q.iter().map(|x| Felt::THREE * pow_u128(w, bitrev(*x, m))).collect();
    if corrupt {
        values[0] += Felt::ONE;
    }
    let mut layers = vec![];
    let mut cur = q.clone();
    for (i, s) in params.steps[1..].iter().enumerate() {
        let cs = 1u128 << s;
        let mut cosets: Vec<u128> = cur.iter().map(|x| x / cs).collect();
        cosets.dedup();
        let nleaves = cosets.len() * cs as usize - cur.len();
        let (tb, val) = &tables[i];
        layers.push(LayerWitness {
            leaves: vec![*val; nleaves],
            table_witness: TWitness { vector: VWitness { authentications: tb.tree.witness(&cosets) } },
        });
        cur = cosets;
    }
    let cfg = fri_config(&params);
    let desc = json!({"kind": "constant polynomial on a huge domain", "log_input_size": m, "steps": params.steps, "n_friendly": params.n_friendly,
        "queries": q.iter().map(|x| x.to_string()).collect::<Vec<_>>(), "corrupted": corrupt});
    let valid = {
        let cfg2 = fri_config(&params);
        let (c, nf) = (params.c, params.n_friendly);
        catch(move || cfg2.validate(Felt::from(c as u64), Felt::from(nf)).is_ok()).unwrap_or(false)
    };
    if !valid {
        return (Outcome::Rejected("config not accepted by Config::validate".into()), desc);
    }
    let unsent = UnsentCommitment { inner_layers: roots, last_layer_coefficients: last };
    let com = catch(move || {
        let mut t = Transcript::new(seed);
        fri_commit(&mut t, unsent, cfg)
    });
    let com = match com {
        Ok(c) => c,
        Err(p) => return (Outcome::Panicked(format!("fri_commit {}:{} {}", p.file, p.line, p.msg)), desc),
    };
    let qf: Vec<Felt> = q.iter().map(|x| Felt::from(*x)).collect();
    let r = catch(move || fri_verify(&qf, com, Decommitment { values, points }, Witness { layers }).map_err(|e| format!("{e:?}")));
    let out = match r {
        Ok(Ok(())) => Outcome::Accepted,
        Ok(Err(e)) => Outcome::Rejected(e),
        Err(p) => Outcome::Panicked(format!("fri_verify {}:{} {}", p.file, p.line, p.msg)),
    };
    (out, desc)
}

pub fn make_instance(rng: &mut Rng, thorough: bool, poly_kind: u64) -> Instance {
    let params = gen_params(rng, thorough);
    let coef = gen_poly(rng, &params, poly_kind);
    let seed = rng.felt();
    let mut sponge = SpongeModel::new(seed);
    let proof = FriProof::commit(params.clone(), &coef, &mut sponge);
    let queries = gen_queries(rng, &params);
    Instance { params, seed, proof, queries }
}

pub fn run(args: &Args, sound: bool) -> Report {
    let seed = args.u64("seed", 1);
    let thorough = args.thorough();
    let base = Rng::new(seed).fork(if sound { "frisound" } else { "fri" }).fork(crate::build_hash().name());
    let mut total = Report::new();
    if !sound {
        let n_formula = if thorough { 40_000 } else { 4_000 };
        let chunks = 64u64;
        let rep = par_run(n_threads(), chunks, |i, rep| {
            let mut rng = base.fork(&format!("formula{i}"));
            formula_identities(rep, &mut rng, n_formula / chunks);
        });
        total.merge(rep);
    }
    if !sound {
        // ---- configuration sweep (no instance is built): every valid (layers, step style, last-layer log
        // bound 0..=15, blow-up 0..=16) must pass the real Config::validate with the right degree bound -
        // the instance generator keeps domains small and never reaches the upper ends of the ranges
        let hash = crate::build_hash();
        let mut n_cfg = 0u64;
        let mut rep = Report::new();
        for n_layers in 2usize..=15 {
            for style in [1u32, 2, 3, 4] {
                for lb in 0u32..=15 {
                    for c in [0u32, 1, 4, 16] {
                        let mut steps = vec![0u32];
                        steps.extend(std::iter::repeat(style).take(n_layers - 1));
                        let p = FriParams { steps, lb, c, n_friendly: 0, hash, extra_height: 0 };
                        if p.m() > 64 {
                            continue;
                        }
                        let cfg = fri_config(&p);
                        let want = Felt::from(p.degree_bound_log() as u64);
                        n_cfg += 1;
                        rep.case(&format!("cfgsweep|{n_layers}|{style}|{lb}|{c}"), true);
                        match catch(move || cfg.validate(Felt::from(c as u64), Felt::ZERO).map_err(|e| format!("{e:?}"))) {
                            Ok(Ok(d)) if d == want => {}
                            other => rep.violation("C06|valid-config-rejected|sweep", &format!("a valid FRI configuration ({n_layers} layers of step {style}, last-layer log bound {lb}, log blow-up {c}) was not accepted by Config::validate: {other:?}"), serde_json::json!({"n_layers": n_layers, "step": style, "log_last_layer_bound": lb, "log_n_cosets": c})),
                        }
                    }
                }
            }
        }
        rep.count("config_sweep.accepted_required", n_cfg);
        total.merge(rep);
    }
    let n: u64 = args.u64("n", match (sound, thorough) {
        (false, false) => 160,
        (false, true) => 3000,
        (true, false) => 48,
        (true, true) => 600,
    });
    let rep = par_run(n_threads(), n, |i, rep| {
        let mut rng = base.fork(&format!("inst{i}"));
        let poly_kind = if sound { 3 } else { rng.below(8) };
        let inst = make_instance(&mut rng, thorough, poly_kind);
        let p = &inst.params;
        let key = format!("{:?}|{}|{}|{}|{}|{:?}", p.steps, p.lb, p.c, p.n_friendly, hex(&inst.seed), inst.queries);
        // the configuration must be one the real validation accepts
        let cfg = fri_config(p);
        let c = p.c;
        let nf = p.n_friendly;
        let v = catch(move || cfg.validate(Felt::from(c as u64), Felt::from(nf)).map_err(|e| format!("{e:?}")));
        match v {
            Ok(Ok(d)) if d == Felt::from(p.degree_bound_log() as u64) => rep.inc("config_validated"),
            other => {
                rep.violation("C06|valid-config-rejected", &format!("a valid FRI configuration was not accepted by Config::validate: {other:?}"), inst.describe(&Corr::None));
                return;
            }
        }
        rep.case(&key, p.steps.len() >= 2);
        rep.inc(&format!("layers.{}", p.steps.len()));
        rep.inc(&format!("poly_kind.{}", ["zero", "constant", "sparse_max_degree", "random", "random", "random", "divisible_by_x_to_the_fold", "max_degree_monomial"][poly_kind as usize]));
        rep.count("queries", inst.queries.len() as u64);
        if rep.samples.len() < 2 {
            rep.sample(inst.describe(&Corr::None));
        }
        match inst.run_real(&Corr::None, &mut rng) {
            Outcome::Accepted => rep.inc("honest_accepted"),
            Outcome::Rejected(e) => {
                rep.violation("C06|honest-rejected", &format!("honest FRI instance rejected: {e}"), inst.describe(&Corr::None));
                return;
            }
            Outcome::Panicked(e) => {
                rep.violation("C06|honest-panicked", &format!("honest FRI instance panicked: {e}"), inst.describe(&Corr::None));
                return;
            }
        }
        if !sound {
            return;
        }
        // ---- C07: every single-position corruption
        let openings = inst.proof.open(&inst.queries);
        let nq = inst.queries.len();
        let cs0 = 1u128 << p.steps[1];
        let mut corrs: Vec<Corr> = vec![];
        for k in 0..nq {
            corrs.push(Corr::Value(k));
            // a query point is only exercised where every correct implementation must read it:
            // when the query is alone in its first-layer coset
            let alone = inst.queries.iter().filter(|q| **q / cs0 == inst.queries[k] / cs0).count() == 1;
            if alone {
                corrs.push(Corr::Point(k));
            }
            if inst.proof.input[inst.queries[k] as usize] != Felt::ZERO {
                corrs.push(Corr::ZeroValuePlusLeaf(k));
            }
        }
        for k in [0, nq / 2, nq - 1] {
            corrs.push(Corr::DupQueryWrongValue(k, false));
            corrs.push(Corr::DupQueryWrongValue(k, true));
        }
        for (l, o) in openings.iter().enumerate() {
            for j in 0..o.leaves.len() {
                corrs.push(Corr::Leaf(l, j));
            }
            if !o.leaves.is_empty() {
                corrs.push(Corr::LeafDrop(l, rng.below(o.leaves.len() as u64) as usize));
            }
            for j in 0..o.authentications.len() {
                corrs.push(Corr::Auth(l, j));
                corrs.push(Corr::AuthHigh(l, j));
            }
            if !o.authentications.is_empty() {
                corrs.push(Corr::AuthDrop(l, rng.below(o.authentications.len() as u64) as usize));
            }
            corrs.push(Corr::RootPre(l));
            corrs.push(Corr::RootPost(l));
            corrs.push(Corr::EvalPoint(l));
        }
        let nl = 1usize << p.lb;
        for k in 0..nl {
            corrs.push(Corr::LastPre(k));
            corrs.push(Corr::LastPost(k));
        }
        for len in [nl + 1, nl - 1, nl * 2, nl / 2] {
            if len != nl {
                corrs.push(Corr::LastLenPre(len));
                corrs.push(Corr::LastLenPost(len));
            }
        }
        let cap = if thorough { 400 } else { 160 };
        if corrs.len() > cap {
            // keep at least a few of each class
            rng.shuffle(&mut corrs);
            let mut kept: Vec<Corr> = vec![];
            let mut per: std::collections::BTreeMap<&'static str, usize> = Default::default();
            for c in corrs {
                let e = per.entry(c.class()).or_insert(0);
                if *e < cap / 12 {
                    *e += 1;
                    kept.push(c);
                }
            }
            corrs = kept;
        }
        for c in corrs {
            rep.case(&format!("{key}|{c:?}"), true);
            rep.inc(&format!("corrupt.{}", c.class()));
            match inst.run_real(&c, &mut rng) {
                Outcome::Accepted => rep.violation(
                    &format!("C07|corruption-accepted|{}", c.class()),
                    &format!("fri_verify accepted an instance with a corrupted {}", c.class()),
                    inst.describe(&c),
                ),
                Outcome::Rejected(_) => rep.inc("corrupt_rejected"),
                Outcome::Panicked(_) => {
                    rep.inc("corrupt_rejected");
                    rep.inc("corrupt_rejected_by_panic");
                }
            }
        }
    });
    total.merge(rep);

    // ---- domains of 2^34..2^60 points (constant polynomial, level-constant trees)
    {
        let n_huge: u64 = if thorough { 400 } else { 60 };
        let rep = par_run(n_threads(), n_huge, |i, rep| {
            let mut rng = base.fork(&format!("huge{i}"));
            let corrupt = sound;
            let (out, desc) = huge_constant_run(&mut rng, corrupt);
            rep.case(&format!("huge|{desc}"), true);
            rep.inc("huge_domain.instances");
            match (corrupt, out) {
                (false, Outcome::Accepted) => rep.inc("huge_domain.honest_accepted"),
                (false, o) => rep.violation("C06|honest-rejected|huge-domain", &format!("honest FRI instance on a domain above 2^32 not accepted: {o:?}"), desc),
                (true, Outcome::Accepted) => rep.violation("C07|corruption-accepted|input value (huge domain)", "corrupted input value accepted on a domain above 2^32", desc),
                (true, _) => rep.inc("corrupt_rejected"),
            }
        });
        total.merge(rep);
    }
    if sound {
        // ---- C07: the last layer must have EXACTLY 2^bound coefficients. The changes below keep the
        // polynomial's values (zero padding, or dropping coefficients that are zero), so only the
        // length check itself can reject them.
        let n_len: u64 = if thorough { 300 } else { 40 };
        let rep = par_run(n_threads(), n_len, |i, rep| {
            let mut rng = base.fork(&format!("len{i}"));
            let mut params = gen_params(&mut rng, thorough);
            while params.lb == 0 || params.m() > 12 {
                params = gen_params(&mut rng, thorough);
            }
            // degree < bound / 2^k: the upper part of the last layer is zero
            let bound = 1usize << params.degree_bound_log();
            let keep = (bound >> (1 + rng.below(params.lb as u64))).max(1);
            let mut coef: Vec<Felt> = (0..keep).map(|_| rng.felt()).collect();
            coef.resize(bound, Felt::ZERO);
            let seed = rng.felt();
            let mut sponge = SpongeModel::new(seed);
            let proof = FriProof::commit(params.clone(), &coef, &mut sponge);
            let queries = gen_queries(&mut rng, &params);
            let inst = Instance { params, seed, proof, queries };
            let nl = 1usize << inst.params.lb;
            let last = inst.proof.last_layer();
            let nonzero = last.iter().rposition(|c| *c != Felt::ZERO).map(|x| x + 1).unwrap_or(0);
            if !matches!(inst.run_real(&Corr::None, &mut rng), Outcome::Accepted) {
                rep.violation("C06|honest-rejected", "honest low-degree FRI instance rejected", inst.describe(&Corr::None));
                return;
            }
            let mut lens: Vec<usize> = vec![nl + 1, nl + 2, nl + nl / 2, 2 * nl - 1, 2 * nl, 4 * nl];
            for l in [nl - 1, nl / 2, (nl / 2).max(1) + 1, nonzero.max(1)] {
                if l >= nonzero && l < nl && l >= 1 {
                    lens.push(l);
                }
            }
            lens.sort();
            lens.dedup();
            for l in lens {
                for c in [Corr::LastLenPre(l), Corr::LastLenPost(l)] {
                    rep.case(&format!("len|{}|{:?}|{c:?}", hex(&inst.seed), inst.params.steps), true);
                    rep.inc(&format!("corrupt.{} (value-preserving)", c.class()));
                    match inst.run_real(&c, &mut rng) {
                        Outcome::Accepted => rep.violation(
                            &format!("C07|corruption-accepted|{} (value-preserving)", c.class()),
                            &format!("a last layer of {l} coefficients was accepted although the bound is 2^{} = {nl} (same polynomial: zero padding / zero coefficients dropped)", inst.params.lb),
                            inst.describe(&c),
                        ),
                        _ => rep.inc("corrupt_rejected"),
                    }
                }
            }
        });
        total.merge(rep);

        // ---- C07: functions of degree >= bound, honestly folded, last layer truncated
        let n_hi: u64 = if thorough { 400 } else { 40 };
        let rep = par_run(n_threads(), n_hi, |i, rep| {
            let mut rng = base.fork(&format!("hi{i}"));
            let mut params = gen_params(&mut rng, thorough);
            while params.c == 0 {
                params = gen_params(&mut rng, thorough);
            }
            let bound = 1usize << params.degree_bound_log();
            let full = 1usize << params.m();
            let kind = i % 4;
            let mut coef: Vec<Felt> = (0..bound).map(|_| rng.felt()).collect();
            let label = match kind {
                0 => {
                    coef.push(rng.felt() + Felt::ONE);
                    "degree == bound"
                }
                1 => {
                    coef.extend((bound..(2 * bound).min(full)).map(|_| rng.felt()));
                    "degree == 2*bound-1"
                }
                2 => {
                    coef.resize(full, Felt::ZERO);
                    coef[full - 1] = rng.felt() + Felt::ONE;
                    "degree == domain-1 (sparse)"
                }
                _ => {
                    coef = (0..full).map(|_| rng.felt()).collect();
                    "random function"
                }
            };
            let seed = rng.felt();
            let mut sponge = SpongeModel::new(seed);
            let proof = FriProof::commit(params.clone(), &coef, &mut sponge);
            let queries = gen_queries(&mut rng, &params);
            let inst = Instance { params, seed, proof, queries };
            if inst.proof.last_layer_is_exact() {
                rep.inc("high_degree.degenerate_skipped");
                return;
            }
            rep.case(&format!("hi|{label}|{:?}|{}|{:?}", inst.params.steps, hex(&seed), inst.queries), true);
            rep.inc(&format!("high_degree.{label}"));
            match inst.run_real(&Corr::None, &mut rng) {
                Outcome::Accepted => rep.violation(
                    &format!("C07|high-degree-accepted|{label}"),
                    &format!("fri_verify accepted an honestly folded function with {label} (acceptance probability of a correct verifier <= queries * 2^-250)"),
                    inst.describe(&Corr::None),
                ),
                _ => rep.inc("high_degree_rejected"),
            }
        });
        total.merge(rep);
    }
    if sound {
        // ---- C07: a configuration that states fewer layers than the prover folded (surplus trailing
        // entries in every vector): the function's degree is only below the LONGER fold's bound
        let n_sur: u64 = if thorough { 300 } else { 40 };
        let rep = par_run(n_threads(), n_sur, |i, rep| {
            let mut rng = base.fork(&format!("surplus{i}"));
            let mut params = gen_params(&mut rng, thorough);
            while params.steps.len() < 3 {
                params = gen_params(&mut rng, thorough);
            }
            let coef = gen_poly(&mut rng, &params, 3);
            let seed = rng.felt();
            let mut sponge = SpongeModel::new(seed);
            let proof = FriProof::commit(params.clone(), &coef, &mut sponge);
            let queries = gen_queries(&mut rng, &params);
            let inst = Instance { params, seed, proof, queries };
            if !matches!(inst.run_real(&Corr::None, &mut rng), Outcome::Accepted) {
                rep.violation("C06|honest-rejected", "honest FRI instance rejected", inst.describe(&Corr::None));
                return;
            }
            let c = Corr::NLayersMinusOne;
            rep.case(&format!("surplus|{:?}|{}|{:?}", inst.params.steps, hex(&seed), inst.queries), true);
            rep.inc(&format!("corrupt.{}", c.class()));
            match inst.run_real(&c, &mut rng) {
                Outcome::Accepted => rep.violation(
                    &format!("C07|high-degree-accepted|{}", c.class()),
                    "fri_verify accepted under a configuration that states one layer fewer than the prover folded (the function is not below the stated degree bound)",
                    inst.describe(&c),
                ),
                _ => {
                    rep.inc("corrupt_rejected");
                    rep.inc("surplus_layers_rejected");
                }
            }
        });
        total.merge(rep);
    }
    total.note("configs: 2..=15 layers, steps 1..=4 (all-1, all-4, mixed), last-layer log bound 0..=8, log blow-up 0..=4, n_friendly around each inner layer height; polynomials zero / constant / sparse max degree / random");
    total
}
