//! Small single-threaded component workload for the interpreters / sanitizers (Miri, ASan,
//! valgrind): a few transcript histories, tiny Merkle / table shapes with masked layers, PoW calls,
//! folding identities and one small FRI instance - every oracle still active.
use crate::{fri_check, merkle_check, table_check};
use serde_json::json;
use swiftness_pow::pow::verify_pow;
use swiftness_transcript::transcript::Transcript;
use vcommon::merkle::{Table, Tree, TreeParams};
use vcommon::report::{Args, Report};
use vcommon::sponge::SpongeModel;
use vcommon::{Felt, Rng};

pub fn run(args: &Args) -> Report {
    let seed = args.u64("seed", 1);
    let shard = args.u64("shard", 0);
    let scale = args.u64("scale", 1);
    let hash = crate::build_hash();
    let mut rng = Rng::new(seed).fork("mini").fork(&format!("{shard}"));
    let mut rep = Report::new();
    // transcript: short histories against the sponge model
    for _ in 0..(2 * scale) {
        let d = rng.felt();
        let mut t = Transcript::new(d);
        let mut m = SpongeModel::new(d);
        for _ in 0..3 {
            let v: Vec<Felt> = (0..rng.range(0, 3)).map(|_| rng.felt()).collect();
            t.read_felt_vector_from_prover(&v);
            m.absorb(&v);
            let a = t.random_felt_to_prover();
            if a != m.squeeze() {
                rep.violation("C08|api|squeeze-differs-from-model", "challenge differs from the sponge model (interpreter run)", json!({"digest": vcommon::hex(&d)}));
            }
            t.read_uint64_from_prover(7);
            m.absorb_u64(7);
        }
        rep.case(&format!("mini-transcript|{}", vcommon::hex(&d)), true);
        rep.inc("mini.transcript_histories");
    }
    // Merkle: heights 1..=2, all friendly counts, a couple of query sets, all corruptions
    for h in 1..=2u32 {
        for nf in 0..=(h as u64 + 1) {
            let p = TreeParams { height: h, n_friendly: nf, hash };
            let leaves: Vec<Felt> = (0..1u32 << h).map(|_| rng.felt()).collect();
            let tree = Tree::full(p, &leaves);
            let q: Vec<u128> = if rng.chance(1, 2) { vec![0] } else { vec![0, (1u128 << h) - 1] };
            merkle_check::check_instance(&mut rep, &tree, &q, &mut rng, "mini", Some(6));
            rep.inc("mini.merkle_instances");
        }
    }
    // table: 1, 2, 3 columns on both sides of the row-hash rule
    for ncol in 1..=3usize {
        for nf in [0u64, 100] {
            let p = TreeParams { height: 1, n_friendly: nf, hash };
            let rows: Vec<Vec<Felt>> = (0..2).map(|_| (0..ncol).map(|_| rng.felt()).collect()).collect();
            let table = Table::full(p, ncol, &rows);
            table_check::check_instance_pub(&mut rep, &table, &[1], &mut rng, "mini", 8);
            rep.inc("mini.table_instances");
        }
    }
    // PoW: agreement with the oracle
    for _ in 0..(3 * scale) {
        let d = rng.felt().to_bytes_be();
        let n = rng.range(0, 12) as u8;
        let nonce = rng.next();
        let want = vcommon::pow::pow_ok(hash, &d, n, nonce);
        if verify_pow(d, n, nonce).is_ok() != want {
            rep.violation("C09|accepted-below-threshold", "verify_pow differs from the oracle (interpreter run)", json!({"n_bits": n, "nonce": nonce}));
        }
        rep.case(&format!("mini-pow|{n}|{nonce}"), true);
        rep.inc("mini.pow_calls");
    }
    // FRI: folding identities and one tiny honest instance with its corruptions
    fri_check::formula_identities_pub(&mut rep, &mut rng, 2 * scale);
    if args.flag("fri") {
        let inst = fri_check::make_small_instance(&mut rng);
        match inst.run_real(&fri_check::Corr::None, &mut rng) {
            fri_check::Outcome::Accepted => rep.inc("mini.fri_honest_accepted"),
            o => rep.violation("C06|honest-rejected", &format!("tiny honest FRI instance not accepted: {o:?}"), inst.describe(&fri_check::Corr::None)),
        }
        if let fri_check::Outcome::Accepted = inst.run_real(&fri_check::Corr::Value(0), &mut rng) {
            rep.violation("C07|corruption-accepted|input value", "corrupted tiny FRI instance accepted", inst.describe(&fri_check::Corr::Value(0)));
        }
        rep.case("mini-fri", true);
    }
    rep
}
