//! C05 — table decommitment binds every cell of every queried row.
use serde_json::json;
use std::collections::BTreeMap;
use swiftness_commitment::table::{
    config::Config as TConfig, decommit::table_decommit,
    types::{Commitment as TCommitment, Decommitment as TDecommitment, Witness as TWitness},
};
use swiftness_commitment::vector::{
    config::Config as VConfig,
    types::{Commitment as VCommitment, Witness as VWitness},
};
use vcommon::guard::{catch, n_threads, par_run, PanicRecord};
use vcommon::merkle::{row_hash_with_r, Table, Tree, TreeParams};
use vcommon::report::{Args, Report};
use vcommon::{hex, Felt, Rng};

#[derive(Clone)]
pub struct TInstance {
    pub p: TreeParams,
    pub n_columns: u64,
    pub root: Felt,
    pub idx: Vec<Felt>,
    pub values: Vec<Felt>,
    pub auth: Vec<Felt>,
}

pub fn commitment(p: &TreeParams, n_columns: u64, root: Felt) -> TCommitment {
    let v = VConfig {
        height: Felt::from(p.height as u64),
        n_verifier_friendly_commitment_layers: Felt::from(p.n_friendly),
    };
    TCommitment {
        config: TConfig { n_columns: Felt::from(n_columns), vector: v.clone() },
        vector_commitment: VCommitment { config: v, commitment_hash: root },
    }
}

pub fn real_table_decommit(i: &TInstance) -> Result<Result<(), String>, PanicRecord> {
    let com = commitment(&i.p, i.n_columns, i.root);
    let idx = i.idx.clone();
    let d = TDecommitment { values: i.values.clone() };
    let w = TWitness { vector: VWitness { authentications: i.auth.clone() } };
    catch(move || table_decommit(com, &idx, d, w).map_err(|e| format!("{e:?}")))
}

fn describe(i: &TInstance, what: &str) -> serde_json::Value {
    json!({
        "what": what, "hash": i.p.hash.name(), "height": i.p.height, "n_friendly": i.p.n_friendly,
        "n_columns": i.n_columns, "root": hex(&i.root),
        "rows": i.idx.iter().map(hex).collect::<Vec<_>>(),
        "values": i.values.iter().map(hex).collect::<Vec<_>>(),
        "authentications": i.auth.iter().map(hex).collect::<Vec<_>>(),
    })
}

fn corruptions(h: &TInstance, rng: &mut Rng, limit: usize) -> Vec<(String, TInstance)> {
    let mut out = vec![];
    let nc = h.n_columns as usize;
    let nq = h.idx.len();
    let ncell = h.values.len();
    // every cell (sampled when there are many)
    let mut cells: Vec<usize> = (0..ncell).collect();
    if cells.len() > 64 {
        rng.shuffle(&mut cells);
        cells.truncate(64);
    }
    for k in cells {
        let mut c = h.clone();
        c.values[k] += Felt::ONE;
        out.push((format!("cell[{k}]+1"), c));
        let mut c = h.clone();
        c.values[k] = rng.felt();
        out.push((format!("cell[{k}]=rand"), c));
        let mut c = h.clone();
        c.values[k] += vcommon::pow_u128(Felt::TWO, 200);
        out.push((format!("cell[{k}]+2^200"), c));
    }
    // moved between rows (same column) and between columns (same row)
    for _ in 0..6 {
        if nq >= 2 {
            let r1 = rng.below(nq as u64) as usize;
            let r2 = (r1 + 1 + rng.below(nq as u64 - 1) as usize) % nq;
            let col = rng.below(nc as u64) as usize;
            let (a, b) = (r1 * nc + col, r2 * nc + col);
            if h.values[a] != h.values[b] {
                let mut c = h.clone();
                c.values.swap(a, b);
                out.push(("cells swapped across rows".to_string(), c));
            }
        }
        if nc >= 2 {
            let r = rng.below(nq as u64) as usize;
            let c1 = rng.below(nc as u64) as usize;
            let c2 = (c1 + 1 + rng.below(nc as u64 - 1) as usize) % nc;
            let (a, b) = (r * nc + c1, r * nc + c2);
            if h.values[a] != h.values[b] {
                let mut c = h.clone();
                c.values.swap(a, b);
                out.push(("cells swapped across columns".to_string(), c));
            }
        }
    }
    if out.len() > limit {
        rng.shuffle(&mut out);
        out.truncate(limit);
    }
    // wrong number of cells (always kept)
    {
        let mut c = h.clone();
        c.values.clear();
        out.push(("all cells removed".to_string(), c));
        if nq >= 2 {
            let mut c = h.clone();
            c.values.truncate(nc);
            out.push(("cells of all rows but the first removed".to_string(), c));
        }
        let mut c = h.clone();
        c.values.pop();
        out.push(("one cell removed (last)".to_string(), c));
        let mut c = h.clone();
        c.values.remove(0);
        out.push(("one cell removed (first)".to_string(), c));
        let mut c = h.clone();
        c.values.push(rng.felt());
        out.push(("one cell appended".to_string(), c));
        let mut c = h.clone();
        let last = *c.values.last().unwrap();
        c.values.push(last);
        out.push(("last cell duplicated".to_string(), c));
    }
    // declared column count changed
    for (lbl, ncol) in [("n_columns+1", h.n_columns + 1), ("n_columns-1", h.n_columns - 1), ("n_columns*2", h.n_columns * 2)] {
        let mut c = h.clone();
        c.n_columns = ncol;
        out.push((lbl.to_string(), c));
    }
    out
}

pub fn check_instance_pub(rep: &mut Report, table: &Table, q: &[u128], rng: &mut Rng, family: &str, limit: usize) {
    check_instance(rep, table, q, rng, family, limit)
}

fn check_instance(rep: &mut Report, table: &Table, q: &[u128], rng: &mut Rng, family: &str, limit: usize) {
    let p = table.tree.p;
    let (values, auth) = table.open(q);
    let honest = TInstance {
        p,
        n_columns: table.n_columns as u64,
        root: table.root(),
        idx: q.iter().map(|x| Felt::from(*x)).collect(),
        values,
        auth,
    };
    let key = format!("{}|{}|{}|{}|{:?}|{}", p.hash.name(), p.height, p.n_friendly, table.n_columns, q, hex(&honest.root));
    rep.case(&key, true);
    rep.inc(&format!("honest.{family}"));
    let rowrule = if table.n_columns == 1 {
        "single_column_unhashed"
    } else if p.n_friendly >= p.height as u64 + 1 {
        "row_poseidon"
    } else {
        "row_masked_hash"
    };
    rep.inc(&format!("rowhash.{rowrule}"));
    match real_table_decommit(&honest) {
        Ok(Ok(())) => rep.inc("honest_accepted"),
        Ok(Err(e)) => rep.violation(
            &format!("C05|honest-rejected|{rowrule}"),
            &format!("honest table decommitment rejected: {e}"),
            describe(&honest, "honest"),
        ),
        Err(pn) => rep.violation(
            &format!("C05|honest-panicked|{rowrule}"),
            &format!("honest table decommitment panicked at {}:{} {}", pn.file, pn.line, pn.msg),
            describe(&honest, "honest"),
        ),
    }
    if rep.samples.len() < 3 && q.len() <= 2 && table.n_columns <= 3 {
        rep.sample(describe(&honest, "honest instance (accepted); corruptions of it follow"));
    }
    for (label, c) in corruptions(&honest, rng, limit) {
        let class = label.split('[').next().unwrap_or("").to_string() + label.split(']').nth(1).unwrap_or("");
        rep.case(&format!("{key}|{label}|{}", c.values.iter().map(hex).collect::<Vec<_>>().join(",")), true);
        rep.inc(&format!("corrupt.{}", class.trim()));
        match real_table_decommit(&c) {
            Ok(Ok(())) => rep.violation(
                &format!("C05|corruption-accepted|{}|{rowrule}", class.trim()),
                &format!("corrupted table decommitment accepted ({label})"),
                describe(&c, &label),
            ),
            Ok(Err(_)) => rep.inc("corrupt_rejected"),
            Err(_) => {
                rep.inc("corrupt_rejected");
                rep.inc("corrupt_rejected_by_panic");
            }
        }
    }
    // oracle guard: the same rows committed WITHOUT the Montgomery factor must not be accepted
    {
        let special: BTreeMap<u128, Felt> = table
            .rows
            .iter()
            .map(|(i, r)| (*i, row_hash_with_r(&p, r, Felt::ONE)))
            .collect();
        let t2 = Tree::sparse(p, row_hash_with_r(&p, &table.default_row, Felt::ONE), &special);
        let mut c = honest.clone();
        c.root = t2.root();
        c.auth = t2.witness(q);
        rep.inc("corrupt.commitment without Montgomery form");
        rep.case(&format!("{key}|nomont"), true);
        match real_table_decommit(&c) {
            Ok(Ok(())) => rep.violation(
                &format!("C05|corruption-accepted|non-montgomery commitment|{rowrule}"),
                "a commitment to the cells in standard (non-Montgomery) form was accepted",
                describe(&c, "non-montgomery"),
            ),
            _ => rep.inc("corrupt_rejected"),
        }
    }
}

pub fn run(args: &Args) -> Report {
    let seed = args.u64("seed", 1);
    let thorough = args.thorough();
    let hash = crate::build_hash();
    let base = Rng::new(seed).fork("table").fork(hash.name());
    let n: u64 = args.u64("n", if thorough { 8000 } else { 600 });
    let col_choices: Vec<usize> = (1..=16).chain([32usize, 128]).collect();
    let mut total = par_run(n_threads(), n, |i, rep| {
        let mut rng = base.fork(&format!("t{i}"));
        let ncol = col_choices[(i as usize) % col_choices.len()];
        let sparse = (i / col_choices.len() as u64) % 3 == 2;
        let hmax_full = if ncol > 16 { 6 } else { 10 };
        let h: u32 = if sparse { rng.range(8, 48) as u32 } else { rng.range(0, hmax_full) as u32 };
        let nf: u64 = match rng.below(8) {
            0 => 0,
            1 => h as u64 + 1,
            2 => h as u64,
            3 => h as u64 + 2,
            4 => 1000,
            // counts that do not fit 32 bits / are the largest 64-bit value: every layer is friendly
            5 => *rng.pick(&[1u64 << 32, (1u64 << 32) + 1, 1u64 << 40, 1u64 << 63]),
            6 => u64::MAX,
            _ => rng.range(0, h as u64 + 2),
        };
        if nf >= 1 << 32 {
            rep.inc("n_friendly_above_2^32");
        }
        let p = TreeParams { height: h, n_friendly: nf, hash };
        let nrows: u128 = 1u128 << h;
        let kmax = if nrows < 24 { nrows as u64 } else { 24 };
        let k = rng.range(1, kmax) as usize;
        let mut q = rng.distinct_sorted(k, nrows);
        match rng.below(6) {
            0 => q = vec![0],
            1 => q = vec![nrows - 1],
            2 => {
                let extra: Vec<u128> = q.iter().map(|x| x ^ 1).filter(|x| *x < nrows).collect();
                q.extend(extra);
            }
            3 if h <= 5 => q = (0..nrows).collect(),
            _ => {}
        }
        q.sort();
        q.dedup();
        let table = if sparse {
            let mut rows = BTreeMap::new();
            for x in &q {
                if rng.chance(2, 3) {
                    rows.insert(*x, (0..ncol).map(|_| rng.felt()).collect::<Vec<_>>());
                }
            }
            for _ in 0..rng.below(3) {
                rows.insert(((rng.next() as u128) << 64 | rng.next() as u128) % nrows, (0..ncol).map(|_| rng.felt()).collect::<Vec<_>>());
            }
            // default row with distinct cells, so that moving a cell is a real change
            Table::sparse(p, ncol, (0..ncol).map(|_| rng.felt()).collect(), rows)
        } else {
            let rows: Vec<Vec<Felt>> = (0..nrows).map(|_| (0..ncol).map(|_| rng.felt()).collect()).collect();
            Table::full(p, ncol, &rows)
        };
        check_instance(rep, &table, &q, &mut rng, if sparse { "sparse" } else { "full" }, if thorough { 60 } else { 30 });
        rep.inc(&format!("columns.{}", if ncol == 1 { "1" } else if ncol <= 4 { "2-4" } else if ncol <= 16 { "5-16" } else { "32+" }));
    });
    total.note("columns 1..=16, 32, 128; full tables to height 10, sparse (default-row) tables to height 48; n_friendly on both sides of height+1");
    total
}
