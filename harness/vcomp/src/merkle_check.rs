//! C04 — vector (Merkle) decommitment is complete and binding for all shapes.
use serde_json::json;
use std::collections::BTreeMap;
use swiftness_commitment::vector::{
    config::Config, decommit::vector_commitment_decommit,
    types::{Commitment, Query, Witness},
};
use vcommon::guard::{catch, n_threads, par_run};
use vcommon::merkle::{Tree, TreeParams};
use vcommon::report::{Args, Report};
use vcommon::{hex, Felt, Rng};

pub struct Instance {
    pub p: TreeParams,
    pub root: Felt,
    pub idx: Vec<Felt>,
    pub vals: Vec<Felt>,
    pub auth: Vec<Felt>,
}

fn felt_u128(v: u128) -> Felt {
    Felt::from(v)
}

pub fn real_decommit(i: &Instance) -> Result<Result<(), String>, vcommon::guard::PanicRecord> {
    let com = Commitment {
        config: Config {
            height: Felt::from(i.p.height as u64),
            n_verifier_friendly_commitment_layers: Felt::from(i.p.n_friendly),
        },
        commitment_hash: i.root,
    };
    let queries: Vec<Query> =
        i.idx.iter().zip(i.vals.iter()).map(|(a, b)| Query { index: *a, value: *b }).collect();
    let w = Witness { authentications: i.auth.clone() };
    catch(move || vector_commitment_decommit(com, &queries, w).map_err(|e| format!("{e:?}")))
}

fn describe(i: &Instance, what: &str) -> serde_json::Value {
    json!({
        "what": what, "hash": i.p.hash.name(), "height": i.p.height, "n_friendly": i.p.n_friendly,
        "root": hex(&i.root),
        "indices": i.idx.iter().map(hex).collect::<Vec<_>>(),
        "values": i.vals.iter().map(hex).collect::<Vec<_>>(),
        "authentications": i.auth.iter().map(hex).collect::<Vec<_>>(),
    })
}

fn clone_inst(i: &Instance) -> Instance {
    Instance { p: i.p, root: i.root, idx: i.idx.clone(), vals: i.vals.clone(), auth: i.auth.clone() }
}

/// all single-position corruptions of an honest instance: (label, corrupted instance)
pub fn corruptions(
    h: &Instance,
    q: &[u128],
    leaf: &dyn Fn(u128) -> Felt,
    rng: &mut Rng,
    limit: Option<usize>,
) -> Vec<(String, Instance)> {
    let mut out: Vec<(String, Instance)> = vec![];
    let n = 1u128 << h.p.height;
    for k in 0..h.vals.len() {
        let mut c = clone_inst(h);
        c.vals[k] += Felt::ONE;
        out.push((format!("value[{k}]+1"), c));
        let mut c = clone_inst(h);
        c.vals[k] = rng.felt();
        out.push((format!("value[{k}]=rand"), c));
        // a change confined to the bits above the digest width
        let mut c = clone_inst(h);
        c.vals[k] += vcommon::pow_u128(Felt::TWO, 200);
        out.push((format!("value[{k}]+2^200"), c));
    }
    for k in 0..q.len() {
        // to the sibling (when not itself queried)
        // (an index corruption is only a corruption if the new claim is false: in sparse trees two
        // leaves may hold the same default value)
        if h.p.height >= 1 && !q.contains(&(q[k] ^ 1)) && leaf(q[k] ^ 1) != h.vals[k] {
            let mut c = clone_inst(h);
            c.idx[k] = felt_u128(q[k] ^ 1);
            out.push((format!("index[{k}]->sibling"), c));
        }
        // to some other unqueried in-range index
        if (q.len() as u128) < n {
            let mut cand = ((rng.next() as u128) << 64 | rng.next() as u128) % n;
            let mut tries = 0;
            while q.contains(&cand) && tries < 200 {
                cand = (cand + 1) % n;
                tries += 1;
            }
            if !q.contains(&cand) && leaf(cand) != h.vals[k] {
                let mut c = clone_inst(h);
                c.idx[k] = felt_u128(cand);
                out.push((format!("index[{k}]->unqueried"), c));
            }
        }
        // out of range by one tree size
        let mut c = clone_inst(h);
        c.idx[k] = felt_u128(q[k] + n);
        out.push((format!("index[{k}]+2^h"), c));
        // swapped with the neighbour (values stay in place)
        if k + 1 < q.len() && h.vals[k] != h.vals[k + 1] {
            let mut c = clone_inst(h);
            c.idx.swap(k, k + 1);
            out.push((format!("index[{k}] swapped with next"), c));
        }
    }
    for k in 0..h.auth.len() {
        let mut c = clone_inst(h);
        c.auth[k] += Felt::ONE;
        out.push((format!("auth[{k}]+1"), c));
        let mut c = clone_inst(h);
        c.auth[k] = rng.felt();
        out.push((format!("auth[{k}]=rand"), c));
        let mut c = clone_inst(h);
        c.auth[k] += vcommon::pow_u128(Felt::TWO, if k % 2 == 0 { 200 } else { 249 });
        out.push((format!("auth[{k}]+2^200"), c));
        let mut c = clone_inst(h);
        c.auth.remove(k);
        out.push((format!("auth[{k}] dropped"), c));
    }
    {
        let mut c = clone_inst(h);
        c.root += Felt::ONE;
        out.push(("root+1".into(), c));
        let mut c = clone_inst(h);
        c.root = rng.felt();
        out.push(("root=rand".into(), c));
    }
    if let Some(l) = limit {
        if out.len() > l {
            rng.shuffle(&mut out);
            out.truncate(l);
        }
    }
    out
}

pub fn check_instance(
    rep: &mut Report,
    tree: &Tree,
    q: &[u128],
    rng: &mut Rng,
    family: &str,
    corr_limit: Option<usize>,
) {
    let p = tree.p;
    let honest = Instance {
        p,
        root: tree.root(),
        idx: q.iter().map(|x| felt_u128(*x)).collect(),
        vals: q.iter().map(|x| tree.leaf(*x)).collect(),
        auth: tree.witness(q),
    };
    let key = format!("{}|{}|{}|{:?}|{}", p.hash.name(), p.height, p.n_friendly, q, hex(&honest.root));
    rep.case(&key, p.height >= 1);
    rep.inc(&format!("honest.{family}"));
    if p.height >= 1 {
        let boundary = if p.n_friendly == 0 {
            "all_masked"
        } else if p.n_friendly >= p.height as u64 {
            "all_friendly"
        } else {
            "mixed"
        };
        rep.inc(&format!("layers.{boundary}"));
    }
    match real_decommit(&honest) {
        Ok(Ok(())) => rep.inc("honest_accepted"),
        Ok(Err(e)) => rep.violation(
            &format!("C04|honest-rejected|{family}"),
            &format!("honest decommitment rejected: {e}"),
            describe(&honest, "honest"),
        ),
        Err(p) => rep.violation(
            &format!("C04|honest-panicked|{family}"),
            &format!("honest decommitment panicked at {}:{} {}", p.file, p.line, p.msg),
            describe(&honest, "honest"),
        ),
    }
    if rep.samples.len() < 3 && q.len() <= 4 && p.height >= 2 {
        rep.sample(describe(&honest, "honest instance (accepted); every single-position corruption of it is then tried"));
    }
    for (label, c) in corruptions(&honest, q, &|i| tree.leaf(i), rng, corr_limit) {
        let class = label.split('[').next().unwrap_or("").to_string()
            + label.split(']').nth(1).unwrap_or("");
        rep.case(&format!("{key}|{label}|{}", hex(c.vals.first().unwrap_or(&Felt::ZERO))), true);
        rep.inc(&format!("corrupt.{}", class.trim()));
        match real_decommit(&c) {
            Ok(Ok(())) => rep.violation(
                &format!("C04|corruption-accepted|{}", class.trim()),
                &format!("corrupted decommitment accepted ({label})"),
                describe(&c, &label),
            ),
            Ok(Err(_)) => rep.inc("corrupt_rejected"),
            Err(_) => {
                rep.inc("corrupt_rejected");
                rep.inc("corrupt_rejected_by_panic");
            }
        }
    }
}

pub fn run(args: &Args) -> Report {
    let seed = args.u64("seed", 1);
    let thorough = args.thorough();
    let hash = crate::build_hash();
    let base = Rng::new(seed).fork("merkle").fork(hash.name());
    let mut total = Report::new();

    // (1) exhaustive small shapes
    let max_h: u32 = if thorough { 4 } else { 3 };
    let mut shapes = vec![];
    for h in 0..=max_h {
        for nf in 0..=(h as u64 + 1) {
            shapes.push((h, nf));
        }
    }
    let mut work: Vec<(u32, u64, u32)> = vec![]; // (height, n_friendly, subset mask)
    for (h, nf) in &shapes {
        let n = 1u32 << h;
        let subsets: u64 = (1u64 << n) - 1;
        for mask in 1..=subsets {
            work.push((*h, *nf, mask as u32));
        }
    }
    let rep = par_run(n_threads(), work.len() as u64, |i, rep| {
        let (h, nf, mask) = work[i as usize];
        let mut rng = base.fork(&format!("ex{h}.{nf}"));
        // odd work items use trees in which every unqueried leaf is zero
        let zero_others = i % 2 == 1 && h <= 3;
        let leaves: Vec<Felt> = (0..1u32 << h).map(|b| if zero_others && mask >> b & 1 == 0 { let _ = rng.felt(); Felt::ZERO } else { rng.felt() }).collect();
        let p = TreeParams { height: h, n_friendly: nf, hash };
        let tree = Tree::full(p, &leaves);
        let q: Vec<u128> = (0..1u32 << h).filter(|b| mask >> b & 1 == 1).map(|b| b as u128).collect();
        let mut r2 = base.fork(&format!("exc{i}"));
        let limit = if h >= 4 { Some(4) } else { None };
        check_instance(rep, &tree, &q, &mut r2, "exhaustive", limit);
    });
    total.merge(rep);
    total.count("exhaustive_shapes", shapes.len() as u64);
    total.note(&format!("exhaustive: heights 0..={max_h} x n_friendly 0..=height+1 x every non-empty query subset"));

    // (2) random larger shapes (full trees to height 12, sparse trees to height 64)
    let n_random: u64 = args.u64("n", if thorough { 6000 } else { 400 });
    let rep = par_run(n_threads(), n_random, |i, rep| {
        let mut rng = base.fork(&format!("rnd{i}"));
        let sparse = i % 2 == 1;
        let h: u32 = if sparse { rng.range(5, 64) as u32 } else { rng.range(4, 12) as u32 };
        // friendly count: around every layer boundary
        let nf: u64 = match rng.below(8) {
            0 => 0,
            1 => h as u64 + 1,
            2 => h as u64,
            3 => 1000,
            4 => *rng.pick(&[1u64 << 32, (1u64 << 32) + 1, 1u64 << 40, 1u64 << 63]),
            5 => u64::MAX,
            _ => rng.range(0, h as u64 + 1),
        };
        if nf >= 1 << 32 {
            rep.inc("n_friendly_above_2^32");
        }
        let p = TreeParams { height: h, n_friendly: nf, hash };
        let n: u128 = 1u128 << h;
        let kmax = if n < 48 { n as u64 } else { 48 };
        let k = rng.range(1, kmax) as usize;
        let mut q: Vec<u128> = rng.distinct_sorted(k, n);
        // forced patterns
        match rng.below(7) {
            0 => q = vec![0],
            1 => q = vec![n - 1],
            2 => q = vec![0, n - 1],
            3 => {
                // adjacent sibling pairs
                let extra: Vec<u128> = q.iter().map(|x| x ^ 1).collect();
                q.extend(extra);
            }
            4 => {
                // a full subtree of 4 or 8 leaves
                let sz = if h >= 3 { 8u128 } else { n };
                let start = (q[0] / sz) * sz;
                q.extend(start..start + sz);
            }
            5 if h <= 8 => q = (0..n).collect(),
            _ => {}
        }
        q.sort();
        q.dedup();
        let tree = if sparse {
            let mut special = BTreeMap::new();
            for x in &q {
                if rng.chance(1, 2) {
                    special.insert(*x, rng.felt());
                }
                if rng.chance(1, 4) {
                    special.insert(x ^ 1, rng.felt());
                }
            }
            for _ in 0..rng.below(4) {
                special.insert(((rng.next() as u128) << 64 | rng.next() as u128) % n, rng.felt());
            }
            // (a third of the sparse trees have all-zero default leaves: a missing sibling must not be
            // treated as a zero node)
            let default_leaf = if rng.chance(1, 3) { Felt::ZERO } else { rng.felt() };
            Tree::sparse(p, default_leaf, &special)
        } else {
            let zero_heavy = rng.chance(1, 4);
            let leaves: Vec<Felt> = (0..n).map(|_| if zero_heavy && rng.chance(1, 2) { Felt::ZERO } else { rng.felt() }).collect();
            Tree::full(p, &leaves)
        };
        let fam = if sparse { "random_sparse" } else { "random_full" };
        check_instance(rep, &tree, &q, &mut rng, fam, Some(40));
        rep.inc(&format!("height_bucket.{}", match h { 0..=8 => "0-8", 9..=16 => "9-16", 17..=32 => "17-32", _ => "33-64" }));
    });
    total.merge(rep);
    total
}
