//! C08 (API part) — random operation histories on the real `Transcript` against the sponge model,
//! plus metamorphic dependence checks on the real object and a consistency check of the hook log.
use serde_json::json;
use swiftness_transcript::transcript::Transcript;
use swiftness_transcript::verif::{self, Event};
use vcommon::guard::{n_threads, par_run};
use vcommon::report::{Args, Report};
use vcommon::sponge::SpongeModel;
use vcommon::{hex, Felt, Rng};

#[derive(Clone, Debug)]
pub enum Op {
    ReadFelt(Felt),
    ReadVec(Vec<Felt>),
    ReadU64(u64),
    Squeeze,
    SqueezeN(u64),
    Reset(Felt, Felt),
}

fn op_json(o: &Op) -> serde_json::Value {
    match o {
        Op::ReadFelt(v) => json!({"read_felt": hex(v)}),
        Op::ReadVec(v) => json!({"read_vec_len": v.len(), "first": v.first().map(hex)}),
        Op::ReadU64(n) => json!({"read_u64": n}),
        Op::Squeeze => json!("squeeze"),
        Op::SqueezeN(n) => json!({"squeeze_n": n}),
        Op::Reset(d, c) => json!({"new_with_counter": [hex(d), hex(c)]}),
    }
}

fn gen_history(rng: &mut Rng, max_len: u64) -> (Felt, Vec<Op>) {
    let seed = match rng.below(4) {
        0 => Felt::ZERO,
        1 => Felt::ZERO - Felt::ONE,
        _ => rng.felt(),
    };
    let len = rng.range(1, max_len);
    let mut ops = vec![];
    for _ in 0..len {
        ops.push(match rng.below(10) {
            0 | 1 => Op::ReadFelt(match rng.below(4) {
                0 => Felt::ZERO,
                1 => Felt::ZERO - Felt::ONE,
                _ => rng.felt(),
            }),
            2 | 3 => {
                let n = match rng.below(5) {
                    0 => 0,
                    1 => 1,
                    2 => rng.range(2, 8),
                    3 => rng.range(9, 64),
                    _ => rng.range(65, 300),
                };
                Op::ReadVec((0..n).map(|_| rng.felt()).collect())
            }
            4 => Op::ReadU64(match rng.below(3) {
                0 => 0,
                1 => u64::MAX,
                _ => rng.next(),
            }),
            5 | 6 | 7 => Op::Squeeze,
            8 => Op::SqueezeN(rng.range(0, 40)),
            _ => Op::Reset(rng.felt(), if rng.chance(1, 2) { Felt::from(rng.below(5)) } else { rng.felt() }),
        });
    }
    (seed, ops)
}

/// run a history on the real transcript; returns all squeezed outputs tagged with op position,
/// and the (digest, counter) after every op
fn run_real(seed: Felt, ops: &[Op]) -> (Vec<(usize, Felt)>, Vec<(Felt, Felt)>) {
    let mut t = Transcript::new(seed);
    let mut outs = vec![];
    let mut states = vec![];
    for (i, op) in ops.iter().enumerate() {
        match op {
            Op::ReadFelt(v) => t.read_felt_from_prover(v),
            Op::ReadVec(v) => t.read_felt_vector_from_prover(v),
            Op::ReadU64(n) => t.read_uint64_from_prover(*n),
            Op::Squeeze => outs.push((i, t.random_felt_to_prover())),
            Op::SqueezeN(n) => {
                for o in t.random_felts_to_prover(Felt::from(*n)) {
                    outs.push((i, o));
                }
            }
            Op::Reset(d, c) => t = Transcript::new_with_counter(*d, *c),
        }
        states.push((*t.digest(), *t.counter()));
    }
    (outs, states)
}

fn run_model(seed: Felt, ops: &[Op]) -> (Vec<(usize, Felt)>, Vec<(Felt, Felt)>) {
    let mut m = SpongeModel::new(seed);
    let mut outs = vec![];
    let mut states = vec![];
    for (i, op) in ops.iter().enumerate() {
        match op {
            Op::ReadFelt(v) => m.absorb(&[*v]),
            Op::ReadVec(v) => m.absorb(v),
            Op::ReadU64(n) => m.absorb_u64(*n),
            Op::Squeeze => outs.push((i, m.squeeze())),
            Op::SqueezeN(n) => {
                for _ in 0..*n {
                    outs.push((i, m.squeeze()));
                }
            }
            Op::Reset(d, c) => m = SpongeModel::with_counter(*d, *c),
        }
        states.push((m.digest, m.counter));
    }
    (outs, states)
}

/// every hook event must be the model's transition from the state the previous event left
pub fn check_event_chain(events: &[Event]) -> Result<(), String> {
    let mut m: Option<SpongeModel> = None;
    for (k, e) in events.iter().enumerate() {
        match e {
            Event::New { digest, counter } => m = Some(SpongeModel::with_counter(*digest, *counter)),
            Event::Squeeze { digest, counter, out } => {
                let mm = m.as_mut().ok_or(format!("event {k}: squeeze before any New"))?;
                if mm.digest != *digest || mm.counter != *counter {
                    return Err(format!("event {k}: squeeze from state ({},{}) but model is at ({},{})", hex(digest), hex(counter), hex(&mm.digest), hex(&mm.counter)));
                }
                let o = mm.squeeze();
                if o != *out {
                    return Err(format!("event {k}: squeeze output differs from the model"));
                }
            }
            Event::AbsorbFelt { before, value, after } => {
                let mm = m.as_mut().ok_or(format!("event {k}: absorb before any New"))?;
                if mm.digest != *before {
                    return Err(format!("event {k}: absorb from a digest that is not the previous state"));
                }
                mm.absorb(&[*value]);
                if mm.digest != *after {
                    return Err(format!("event {k}: digest after absorb differs from the model"));
                }
            }
            Event::AbsorbVec { before, values, after } => {
                let mm = m.as_mut().ok_or(format!("event {k}: absorb before any New"))?;
                if mm.digest != *before {
                    return Err(format!("event {k}: absorb from a digest that is not the previous state"));
                }
                mm.absorb(values);
                if mm.digest != *after {
                    return Err(format!("event {k}: digest after vector absorb differs from the model"));
                }
            }
        }
    }
    Ok(())
}

fn replay(seed: Felt, ops: &[Op]) -> serde_json::Value {
    json!({"seed": hex(&seed), "ops": ops.iter().map(op_json).collect::<Vec<_>>()})
}

fn alter(op: &Op, rng: &mut Rng) -> Option<Op> {
    Some(match op {
        Op::ReadFelt(v) => Op::ReadFelt(*v + Felt::ONE),
        Op::ReadVec(v) if !v.is_empty() => {
            let mut w = v.clone();
            let k = rng.below(w.len() as u64) as usize;
            w[k] += Felt::ONE;
            Op::ReadVec(w)
        }
        Op::ReadVec(_) => Op::ReadVec(vec![Felt::ZERO]),
        Op::ReadU64(n) => Op::ReadU64(n ^ 1),
        _ => return None,
    })
}

pub fn run(args: &Args) -> Report {
    let seed = args.u64("seed", 1);
    let thorough = args.thorough();
    let n: u64 = args.u64("n", if thorough { 50_000 } else { 3_000 });
    let max_len: u64 = args.u64("maxlen", 64);
    let base = Rng::new(seed).fork("transcript");
    let mut total = par_run(n_threads(), n, |i, rep| {
        let mut rng = base.fork(&format!("h{i}"));
        let (s, ops) = gen_history(&mut rng, max_len);
        verif::start(u64::MAX);
        let (outs, states) = run_real(s, &ops);
        let events = verif::take();
        let (mouts, mstates) = run_model(s, &ops);
        let key = format!("{}|{:?}", hex(&s), ops.iter().map(op_json).collect::<Vec<_>>());
        let n_absorb = ops.iter().filter(|o| matches!(o, Op::ReadFelt(_) | Op::ReadVec(_) | Op::ReadU64(_))).count();
        rep.case(&key, n_absorb >= 1 && !outs.is_empty());
        rep.count("ops", ops.len() as u64);
        rep.count("squeezes_compared", outs.len() as u64);
        rep.count("hook_events", events.len() as u64);
        if rep.samples.len() < 2 && ops.len() <= 6 {
            rep.sample(json!({"history": replay(s, &ops), "squeezed": outs.iter().map(|(i, o)| json!([i, hex(o)])).collect::<Vec<_>>()}));
        }
        if outs != mouts {
            rep.violation("C08|api|squeeze-differs-from-model", "a squeezed challenge differs from the sponge model", replay(s, &ops));
        }
        if states != mstates {
            rep.violation("C08|api|state-differs-from-model", "digest/counter after an operation differs from the sponge model", replay(s, &ops));
        }
        if let Err(e) = check_event_chain(&events) {
            rep.violation("C08|api|hook-chain", &format!("hook event chain is not a model run: {e}"), replay(s, &ops));
        }
        // challenges drawn without an intervening message are pairwise different
        {
            // expand per-op grouping into maximal runs of squeezes with no absorb/reset between
            let mut runs: Vec<Vec<Felt>> = vec![vec![]];
            let mut oi = 0;
            for (i, op) in ops.iter().enumerate() {
                match op {
                    Op::Squeeze | Op::SqueezeN(_) => {
                        while oi < outs.len() && outs[oi].0 == i {
                            runs.last_mut().unwrap().push(outs[oi].1);
                            oi += 1;
                        }
                    }
                    _ => runs.push(vec![]),
                }
            }
            for r in runs {
                let mut s2 = r.clone();
                s2.sort();
                s2.dedup();
                if s2.len() != r.len() {
                    rep.violation("C08|api|repeated-challenge", "two challenges drawn without an intervening message are equal", replay(s, &ops));
                }
                rep.count("challenge_runs_checked", 1);
            }
        }
        // metamorphic: alter one message => all later squeezes (until a Reset) differ, earlier same
        let msg_positions: Vec<usize> = ops.iter().enumerate().filter(|(_, o)| matches!(o, Op::ReadFelt(_) | Op::ReadVec(_) | Op::ReadU64(_))).map(|(i, _)| i).collect();
        if !msg_positions.is_empty() {
            let pos = *rng.pick(&msg_positions);
            if let Some(alt) = alter(&ops[pos], &mut rng) {
                let mut ops2 = ops.clone();
                ops2[pos] = alt;
                let (outs2, _) = run_real(s, &ops2);
                let next_reset = ops.iter().enumerate().skip(pos).find(|(_, o)| matches!(o, Op::Reset(..))).map(|(i, _)| i).unwrap_or(usize::MAX);
                if outs.len() != outs2.len() {
                    rep.violation("C08|api|metamorphic-shape", "altered history produced a different number of challenges", replay(s, &ops));
                } else {
                    let mut later = 0;
                    for (a, b) in outs.iter().zip(outs2.iter()) {
                        if a.0 < pos || a.0 > next_reset {
                            if a.0 < pos && a.1 != b.1 {
                                rep.violation("C08|api|earlier-challenge-changed", "a challenge drawn before the altered message changed", replay(s, &ops2));
                            }
                        } else if a.0 > pos && a.0 < next_reset {
                            later += 1;
                            if a.1 == b.1 {
                                rep.violation("C08|api|later-challenge-unchanged", "a challenge drawn after an altered message did not change", json!({"original": replay(s, &ops), "altered_position": pos}));
                            }
                        }
                    }
                    rep.count("metamorphic_later_challenges", later);
                    rep.inc("metamorphic_pairs");
                }
            }
        }
        // a vector absorb is not the same as absorbing its elements one by one; u64 == felt
        if i % 4 == 0 {
            let a = rng.felt();
            let b = rng.felt();
            let d = rng.felt();
            let mut t1 = Transcript::new(d);
            t1.read_felt_vector_from_prover(&[a, b]);
            let mut t2 = Transcript::new(d);
            t2.read_felt_from_prover(&a);
            t2.read_felt_from_prover(&b);
            if t1.random_felt_to_prover() == t2.random_felt_to_prover() {
                rep.violation("C08|api|vector-equals-sequence", "absorbing [a,b] as a vector gives the same challenge as absorbing a then b", json!({"d": hex(&d), "a": hex(&a), "b": hex(&b)}));
            }
            let n = rng.next();
            let mut t3 = Transcript::new(d);
            t3.read_uint64_from_prover(n);
            let mut t4 = Transcript::new(d);
            t4.read_felt_from_prover(&Felt::from(n));
            if t3.random_felt_to_prover() != t4.random_felt_to_prover() {
                rep.violation("C08|api|u64-differs-from-felt", "absorbing a u64 differs from absorbing the same number as a field element", json!({"d": hex(&d), "n": n}));
            }
            // single-element vector vs felt absorb coincide in the sponge definition
            rep.inc("structure_probes");
        }
    });
    total.note("histories of 1..=64 ops over read_felt / read_felt_vector (0..=300) / read_u64 / squeeze / squeeze_n (0..=40) / new_with_counter");
    total
}
