//! C13 — the public-input digest binds every field of the public input (metamorphic monitor).
use crate::layouts::build_stone;
use crate::mutate::{self, enumerate, get, path_class, path_str};
use crate::tamper::honest_for_build;
use crate::trace::pi_hash_model;
use num_bigint::BigUint;
use serde_json::{json, Value};
use starknet_crypto::Felt;
use std::collections::HashMap;
use swiftness_air::public_memory::PublicInput;
use vcommon::guard::{catch, n_threads, par_run};
use vcommon::report::{Args, Report};
use vcommon::{hex, Rng};

fn rand_pi(rng: &mut Rng, template: &Value, dynamic: Option<&Value>) -> Value {
    let hx = |f: Felt| Value::String(hex(&f));
    let small = |rng: &mut Rng| Value::String(format!("0x{:x}", rng.below(1 << 20)));
    let n_cells = match rng.below(6) {
        0 => 0,
        1 => 1,
        2 => rng.range(100, 600),
        _ => rng.range(2, 60),
    };
    let n_seg = rng.range(0, 12);
    let n_hdr = rng.range(0, 4);
    let mut v = template.clone();
    v["log_n_steps"] = small(rng);
    v["range_check_min"] = small(rng);
    v["range_check_max"] = small(rng);
    v["segments"] = Value::Array((0..n_seg).map(|_| json!({"begin_addr": small(rng), "stop_ptr": small(rng)})).collect());
    v["padding_addr"] = small(rng);
    v["padding_value"] = hx(rng.felt());
    v["main_page"] = Value::Array((0..n_cells).map(|i| json!({"address": format!("0x{:x}", i + 1), "value": hx(rng.felt())})).collect());
    // page sizes include 0 and 1 (an empty page is still a page: its address, size and hash are bound)
    v["continuous_page_headers"] = Value::Array((0..n_hdr).map(|_| { let sz = match rng.below(4) { 0 => Value::String("0x0".into()), 1 => Value::String("0x1".into()), _ => small(rng) }; json!({"start_address": small(rng), "size": sz, "hash": hx(rng.felt()), "prod": hx(rng.felt())}) }).collect());
    if let Some(d) = dynamic {
        let mut d = d.clone();
        for (_, x) in d.as_object_mut().unwrap().iter_mut() {
            if rng.chance(1, 3) {
                *x = Value::Number(rng.below(1 << 16).into());
            }
        }
        v["dynamic_params"] = d;
    }
    v
}

fn has_headers_early(pi: &PublicInput) -> bool {
    !pi.continuous_page_headers.is_empty()
}

pub fn run(args: &Args) -> Report {
    let seed = args.u64("seed", 1);
    let thorough = args.thorough();
    let repo = args.str("repo", "/repo");
    let stone6 = build_stone() == "stone6";
    let base = Rng::new(seed).fork("pihash").fork(build_stone());
    let honest = honest_for_build(&repo);
    let mut seeds: Vec<(String, Value)> = honest.iter().map(|h| (h.name.clone(), serde_json::to_value(&h.proof.public_input).unwrap())).collect();
    let mut total = Report::new();
    if seeds.is_empty() {
        total.inconclusive("no honest public input available");
        return total;
    }
    // a dynamic-layout public input is part of every build's seeds (the only shipped dynamic proof is a
    // stone6 one, but PublicInput::get_hash must bind the dynamic parameters under stone5 as well)
    if !seeds.iter().any(|(_, v)| v.get("dynamic_params").map(|d| !d.is_null()).unwrap_or(false)) {
        for f in crate::load::shipped(&repo).into_iter().filter(|f| f.layout == "dynamic") {
            if let Some(p) = std::fs::read_to_string(&f.path).ok().and_then(|t| crate::stone::load(&t).ok()).and_then(|l| l.proof().ok()) {
                seeds.push((format!("{} (public input only; proof of another build)", f.name), serde_json::to_value(&p.public_input).unwrap()));
                total.inc("dynamic_seed_from_another_build");
                break;
            }
        }
    }
    let dynamic_tpl: Option<Value> = seeds.iter().find_map(|(_, v)| v.get("dynamic_params").filter(|d| !d.is_null()).cloned());
    let static_tpl = seeds.iter().find(|(_, v)| v.get("dynamic_params").is_none()).map(|(_, v)| v.clone()).unwrap_or(seeds[0].1.clone());
    let n_rand = if thorough { 200 } else { 24 };
    let mut r = base.fork("rand");
    for k in 0..n_rand {
        let use_dyn = dynamic_tpl.is_some() && k % 6 == 5;
        let tpl = if use_dyn { seeds.iter().find(|(_, v)| v.get("dynamic_params").map(|d| !d.is_null()).unwrap_or(false)).unwrap().1.clone() } else { static_tpl.clone() };
        seeds.push((format!("random #{k}"), rand_pi(&mut r, &tpl, if use_dyn { dynamic_tpl.as_ref() } else { None })));
    }
    let rep = par_run(n_threads(), seeds.len() as u64, |si, rep| {
        let (name, v0) = &seeds[si as usize];
        let mut rng = base.fork(&format!("s{si}"));
        let nf = Felt::from(*rng.pick(&[0u64, 10, 23, 100, 9999]));
        let Ok(pi0) = serde_json::from_value::<PublicInput>(v0.clone()) else {
            rep.inconclusive(&format!("seed {name} does not deserialise"));
            return;
        };
        let h0 = match catch(|| pi0.get_hash(nf)) {
            Ok(h) => h,
            Err(p) => {
                rep.violation("C13|panic", &format!("get_hash panicked {}:{}", p.file, p.line), json!({"seed": name}));
                return;
            }
        };
        // digest -> (label, canonical serialisation of (input, friendly count)): a collision needs two
        // DIFFERENT inputs (deleting either of two identical neighbouring segments gives equal inputs)
        let mut seen: HashMap<Felt, (String, String)> = HashMap::new();
        seen.insert(h0, ("original".into(), format!("{}|{}", v0, hex(&nf))));
        rep.case(&format!("{name}|original"), true);
        // equal inputs have equal digests (deep copy through serde)
        let copy: PublicInput = serde_json::from_str(&serde_json::to_string(&pi0).unwrap()).unwrap();
        if copy.get_hash(nf) != h0 {
            rep.violation("C13|equal-inputs-differ", "a deep copy of the public input has a different digest", json!({"seed": name}));
        }
        rep.inc("equal_copies_checked");
        // the digest model (validated on the recorded proofs by C08/C13's recorded leg)
        let has_headers = !pi0.continuous_page_headers.is_empty();
        if pi_hash_model(&pi0, nf, stone6) != h0 {
            if has_headers {
                rep.note("digest differs from the model on an input with continuous pages (not covered by recorded data; recorded only)");
            } else {
                rep.violation("C13|differs-from-model", "get_hash differs from the digest model that reproduces the recorded Stone transcripts", json!({"seed": name, "public_input": v0}));
            }
        } else {
            rep.inc("digest_equals_model");
        }
        // the same object edited in place and hashed again (same buffers, same lengths): each digest
        // must follow the contents, not the object's identity or what was hashed before
        {
            let mut pim: PublicInput = serde_json::from_str(&serde_json::to_string(&pi0).unwrap()).unwrap();
            let n = pim.main_page.len();
            let mut prev = pim.get_hash(nf);
            for step in 0..6usize {
                let what = match step {
                    0 | 1 | 2 if n > 0 => {
                        let k = [0, n / 2, n - 1][step];
                        pim.main_page.0[k].value += Felt::ONE;
                        format!("main_page[{k}].value += 1")
                    }
                    3 if n > 0 => {
                        pim.main_page.0[n - 1].address += Felt::ONE;
                        "last main-page address += 1".to_string()
                    }
                    4 => {
                        pim.log_n_steps += Felt::ONE;
                        "log_n_steps += 1".to_string()
                    }
                    5 => {
                        pim.padding_value += Felt::ONE;
                        "padding_value += 1".to_string()
                    }
                    _ => continue,
                };
                let h = pim.get_hash(nf);
                rep.inc("in_place_edits_rehashed");
                rep.case(&format!("{name}|in place #{step}"), true);
                let fresh: PublicInput = serde_json::from_str(&serde_json::to_string(&pim).unwrap()).unwrap();
                let hf = fresh.get_hash(nf);
                if h == prev {
                    rep.violation("C13|collision|in-place edit", &format!("digest unchanged after editing the same object in place ({what})"), json!({"seed": name, "edit": what}));
                } else if h != hf || (!has_headers_early(&pim) && h != pi_hash_model(&pim, nf, stone6)) {
                    rep.violation("C13|history-dependent", &format!("digest of an object edited in place ({what}) differs from the digest of an equal fresh object / the model"), json!({"seed": name, "edit": what}));
                }
                prev = h;
            }
        }
        let mut try_variant = |rep: &mut Report, v: Value, label: String, class: String, in_statement: bool, nfv: Felt| {
            let Ok(pi) = serde_json::from_value::<PublicInput>(v.clone()) else { return };
            if pi == pi0 && nfv == nf {
                return;
            }
            let h = match catch(|| pi.get_hash(nfv)) {
                Ok(h) => h,
                Err(_) => return,
            };
            rep.case(&format!("{name}|{label}"), in_statement);
            if !in_statement {
                rep.inc(if h == h0 { "not_in_statement.same_digest" } else { "not_in_statement.different_digest" });
                return;
            }
            rep.inc(&format!("changed.{class}"));
            let canon = format!("{}|{}", serde_json::to_value(&pi).unwrap(), hex(&nfv));
            if let Some((prev, prev_canon)) = seen.get(&h) {
                if *prev_canon == canon {
                    rep.inc("variants_equal_to_an_earlier_variant");
                    return;
                }
                rep.violation(
                    &format!("C13|collision|{class}"),
                    &format!("two different public inputs have the same digest: [{label}] and [{prev}]"),
                    json!({"seed": name, "n_verifier_friendly_commitment_layers": hex(&nf), "variant": label, "collides_with": prev, "public_input": v}),
                );
            } else {
                seen.insert(h, (label, canon));
            }
        };
        // every single scalar field
        let (leaves, _) = enumerate(v0);
        for l in &leaves {
            let cur = get(v0, l).unwrap();
            let Some(orig) = mutate::leaf_big(cur) else { continue };
            let class = path_class(l);
            let in_statement = !class.ends_with(".prod");
            // thorough: every leaf, except on pages of more than 120 cells, where ~240 of the page's
            // leaves are drawn (each variant re-hashes the whole page: the cost is quadratic in its size)
            let n_cells = pi0.main_page.len() as u64;
            if thorough && class.contains("main_page") && n_cells > 120 && rng.below(n_cells) >= 120 {
                continue;
            }
            for delta in [1u64, 2] {
                let mut v = v0.clone();
                if mutate::set_leaf(&mut v, l, &(&orig + BigUint::from(delta))) {
                    try_variant(rep, v, format!("{} + {delta}", path_str(l)), class.clone(), in_statement, nf);
                }
                if !thorough {
                    break;
                }
            }
            // changes by a multiple of a machine-word size (a digest that only sees the low limb)
            let big_deltas: &[u32] = if cur.is_string() { &[32, 64, 128, 250] } else { &[32, 48] };
            // (quick: one of the four deltas per field, and only one main-page cell in eight)
            if !thorough && class.contains("main_page") && rng.below(8) != 0 {
                continue;
            }
            for (k, sh) in big_deltas.iter().enumerate() {
                if !thorough && cur.is_string() && k != (rng.below(4) as usize) {
                    continue;
                }
                let mut v = v0.clone();
                if mutate::set_leaf(&mut v, l, &(&orig + (BigUint::from(1u8) << *sh))) {
                    try_variant(rep, v, format!("{} + 2^{sh}", path_str(l)), format!("{class} (+2^k)"), in_statement, nf);
                }
            }
        }
        // friendly-layer count
        try_variant(rep, v0.clone(), "n_verifier_friendly_commitment_layers + 1".into(), "n_verifier_friendly_commitment_layers".into(), stone6, nf + Felt::ONE);
        // the count at every magnitude (a narrowing conversion would make large counts collide with
        // small ones); all of these go into the same collision set, and each is compared with the model
        {
            let two = |e: u32| vcommon::pow_u128(Felt::TWO, e as u128);
            let mut counts: Vec<(String, Felt)> = vec![("0".into(), Felt::ZERO), ("1".into(), Felt::ONE), ("p-1".into(), Felt::ZERO - Felt::ONE)];
            for e in [8u32, 16, 32, 64, 128, 250] {
                counts.push((format!("2^{e}"), two(e)));
                counts.push((format!("orig + 2^{e}"), nf + two(e)));
            }
            for (l, c) in counts {
                if c == nf {
                    continue;
                }
                try_variant(rep, v0.clone(), format!("n_verifier_friendly_commitment_layers = {l}"), "n_verifier_friendly_commitment_layers".into(), stone6, c);
                if stone6 && !has_headers {
                    rep.inc("friendly_count_magnitudes_vs_model");
                    if catch(|| pi0.get_hash(c)).ok() != Some(pi_hash_model(&pi0, c, stone6)) {
                        rep.violation("C13|differs-from-model", &format!("get_hash with friendly-layer count {l} differs from the digest model"), json!({"seed": name, "n_verifier_friendly_commitment_layers": l}));
                    }
                }
            }
        }
        // main page: insertion, deletion, adjacent transposition at every position
        let n = pi0.main_page.len();
        let cap = if thorough { 200 } else { 40 };
        let positions: Vec<usize> = if n <= cap { (0..=n).collect() } else { let mut p: Vec<usize> = (0..=n).collect(); rng.shuffle(&mut p); p.truncate(cap); p };
        for &i in &positions {
            let mut v = v0.clone();
            v["main_page"].as_array_mut().unwrap().insert(i, json!({"address": hex(&rng.felt()), "value": hex(&rng.felt())}));
            try_variant(rep, v, format!("main_page: cell inserted at {i}"), "main_page insertion".into(), true, nf);
            if i < n {
                let mut v = v0.clone();
                let dup = v["main_page"][i].clone();
                v["main_page"].as_array_mut().unwrap().insert(i, dup);
                try_variant(rep, v, format!("main_page: cell {i} duplicated"), "main_page duplication".into(), true, nf);
                let mut v = v0.clone();
                v["main_page"].as_array_mut().unwrap().remove(i);
                try_variant(rep, v, format!("main_page: cell {i} deleted"), "main_page deletion".into(), true, nf);
            }
            if i + 1 < n {
                let mut v = v0.clone();
                v["main_page"].as_array_mut().unwrap().swap(i, i + 1);
                try_variant(rep, v, format!("main_page: cells {i},{} transposed", i + 1), "main_page transposition".into(), true, nf);
                // address and value of one cell exchanged
                let mut v = v0.clone();
                let c = v["main_page"][i].clone();
                v["main_page"][i] = json!({"address": c["value"], "value": c["address"]});
                try_variant(rep, v, format!("main_page: cell {i} address<->value"), "main_page address/value exchange".into(), true, nf);
            }
        }
        // value moved between neighbouring cells (sum preserved)
        if n >= 2 {
            let i = rng.below(n as u64 - 1) as usize;
            let mut v = v0.clone();
            let a = mutate::leaf_big(&v["main_page"][i]["value"]).unwrap();
            let b2 = mutate::leaf_big(&v["main_page"][i + 1]["value"]).unwrap();
            if a > BigUint::from(0u8) {
                v["main_page"][i]["value"] = mutate::hex_of(&(&a - BigUint::from(1u8)));
                v["main_page"][i + 1]["value"] = mutate::hex_of(&(&b2 + BigUint::from(1u8)));
                try_variant(rep, v, format!("main_page: one unit moved from cell {i} to {}", i + 1), "main_page compensating change".into(), true, nf);
            }
        }
        // headers and segments: insertion / deletion / transposition
        for key in ["continuous_page_headers", "segments"] {
            let len = v0[key].as_array().map(|a| a.len()).unwrap_or(0);
            for i in 0..=len {
                let mut v = v0.clone();
                let new = if key == "segments" {
                    json!({"begin_addr": hex(&Felt::from(rng.below(1 << 20))), "stop_ptr": hex(&Felt::from(rng.below(1 << 20)))})
                } else {
                    json!({"start_address": hex(&Felt::from(rng.below(1 << 20))), "size": "0x5", "hash": hex(&rng.felt()), "prod": hex(&rng.felt())})
                };
                v[key].as_array_mut().unwrap().insert(i, new);
                try_variant(rep, v, format!("{key}: element inserted at {i}"), format!("{key} insertion"), true, nf);
                if i < len {
                    let mut v = v0.clone();
                    v[key].as_array_mut().unwrap().remove(i);
                    try_variant(rep, v, format!("{key}: element {i} deleted"), format!("{key} deletion"), true, nf);
                }
                if i + 1 < len {
                    let mut v = v0.clone();
                    v[key].as_array_mut().unwrap().swap(i, i + 1);
                    try_variant(rep, v, format!("{key}: elements {i},{} transposed", i + 1), format!("{key} transposition"), true, nf);
                }
            }
        }
        // a segment bound moved into the padding cell and similar cross-field moves
        {
            let mut v = v0.clone();
            let a = v["padding_addr"].clone();
            v["padding_addr"] = v["padding_value"].clone();
            v["padding_value"] = a;
            try_variant(rep, v, "padding addr<->value".into(), "padding exchange".into(), true, nf);
            let mut v = v0.clone();
            let a = v["range_check_min"].clone();
            v["range_check_min"] = v["range_check_max"].clone();
            v["range_check_max"] = a;
            try_variant(rep, v, "rc_min<->rc_max".into(), "range-check exchange".into(), true, nf);
        }
        rep.count("digests_in_collision_set", seen.len() as u64);
        if rep.samples.len() < 2 {
            rep.sample(json!({"seed": name, "digest": hex(&h0), "distinct_digests_in_neighbourhood": seen.len()}));
        }
    });
    total.merge(rep);
    total.note("seeds: the honest public inputs of the build + random ones (0..=600 cells, 0..=12 segments, 0..=4 continuous page headers, random dynamic parameters); all digests of one seed's neighbourhood go into one set: any collision between different inputs is a violation; `prod` of a page header (and n_friendly under stone5) are not in the statement and only recorded");
    total
}
