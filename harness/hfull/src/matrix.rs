//! C03 — honest Stone proofs verify only under the matching build, with the right hashes.
use crate::layouts::{build_stone, LAYOUTS};
use crate::load::{self, verify_as};
use crate::stone;
use serde_json::json;
use starknet_crypto::{pedersen_hash, Felt};
use std::collections::BTreeMap;
use swiftness_stark::types::StarkProof;
use vcommon::guard::{catch, n_threads, par_run};
use vcommon::report::{Args, Report};
use vcommon::{fu64, hex};

/// address-based hash chains of the program and output cells (oracle)
pub fn hash_oracle(memory: &BTreeMap<u64, Felt>, initial_pc: u64, initial_ap: u64, out_begin: u64, out_stop: u64) -> Result<(Felt, Felt), String> {
    let chain = |from: u64, to: u64| -> Result<Felt, String> {
        let mut h = Felt::ZERO;
        let mut n = 0u64;
        let mut a = from;
        while a < to {
            let v = memory.get(&a).ok_or(format!("public memory has no cell at address {a}"))?;
            h = pedersen_hash(&h, v);
            n += 1;
            a += 1;
        }
        Ok(pedersen_hash(&h, &Felt::from(n)))
    };
    if initial_ap < 2 {
        return Err("initial_ap too small".into());
    }
    Ok((chain(initial_pc, initial_ap - 2)?, chain(out_begin, out_stop)?))
}

pub fn fixture_proof() -> StarkProof {
    StarkProof {
        config: swiftness_stark::fixtures::config::get(),
        public_input: swiftness_air::fixtures::public_input::get(),
        unsent_commitment: swiftness_stark::fixtures::unsent_commitment::get(),
        witness: swiftness_stark::fixtures::witness::get(),
    }
}

struct Item {
    name: String,
    layout: String,
    stone: String,
    hash: String,
    pow_family_keccak: bool,
    n_friendly: u64,
    log_eval: u32,
    proof: StarkProof,
    memory: BTreeMap<u64, Felt>,
    segs: (u64, u64, u64, u64), // initial_pc, initial_ap, out_begin, out_stop
}

#[derive(PartialEq, Debug, Clone, Copy)]
enum Expect {
    Accept,
    Reject,
    DontCare,
}

fn expectation(it: &Item, layout: &str) -> Expect {
    let bh = vcomp::build_hash();
    if layout != it.layout || it.stone != build_stone() {
        return Expect::Reject;
    }
    if bh.name() == it.hash {
        return Expect::Accept;
    }
    if bh.is_keccak() != it.pow_family_keccak {
        return Expect::Reject;
    }
    // same PoW family, other mask width: rejected whenever some committed layer is masked
    if it.n_friendly < it.log_eval as u64 + 1 {
        return Expect::Reject;
    }
    Expect::DontCare
}

pub fn run(args: &Args) -> Report {
    let repo = args.str("repo", "/repo");
    let files = load::shipped(&repo);
    let mut total = Report::new();
    let mut items: Vec<Item> = vec![];
    for f in &files {
        let text = std::fs::read_to_string(&f.path).unwrap();
        let loaded = match stone::load(&text) {
            Ok(l) => l,
            Err(e) => {
                total.inconclusive(&format!("independent loader failed on shipped file {}: {e:?}", f.name));
                continue;
            }
        };
        let proof = match loaded.proof() {
            Ok(p) => p,
            Err(e) => {
                total.inconclusive(&format!("{}: {e}", f.name));
                continue;
            }
        };
        // the repository's parser + CLI conversion must produce the very same proof
        total.case(&format!("parse|{}", f.name), true);
        match load::repo_pipeline(&text) {
            Ok(Ok(p2)) => {
                if p2 != proof {
                    total.violation("C03|parser-differs-from-file", &format!("{}: proof produced by parser+CLI differs from what the file records", f.name), json!({"file": f.name}));
                } else {
                    total.inc("parser_equal_to_independent_loader");
                }
            }
            Ok(Err(e)) => total.violation("C03|parser-rejects-honest-file", &format!("{}: {e}", f.name), json!({"file": f.name})),
            Err(p) => total.violation("C03|parser-panics-on-honest-file", &format!("{}: {}:{} {}", f.name, p.file, p.line, p.msg), json!({"file": f.name})),
        }
        let seg = |n: &str| loaded.segments.get(n).cloned().unwrap_or((0, 0));
        items.push(Item {
            name: f.name.clone(),
            layout: loaded.layout.clone(),
            stone: f.stone.clone(),
            hash: match loaded.commitment_hash.as_str() {
                "keccak256_masked160_lsb" => "keccak_160_lsb".into(),
                "blake256_masked248_lsb" => "blake2s_248_lsb".into(),
                "keccak256_masked248_lsb" => "keccak_248_lsb".into(),
                "blake256_masked160_lsb" => "blake2s_160_lsb".into(),
                o => o.to_string(),
            },
            pow_family_keccak: loaded.pow_hash.starts_with("keccak"),
            n_friendly: loaded.n_friendly,
            log_eval: loaded.log_eval,
            proof,
            memory: loaded.memory.clone(),
            segs: (seg("program").0, seg("execution").0, seg("output").0, seg("output").1),
        });
    }
    // the in-tree fixture (recursive, keccak_160_lsb, stone5)
    {
        let p = fixture_proof();
        let memory: BTreeMap<u64, Felt> = p.public_input.main_page.iter().filter_map(|c| fu64(&c.address).map(|a| (a, c.value))).collect();
        let s = &p.public_input.segments;
        let g = |i: usize, stop: bool| s.get(i).and_then(|x| fu64(if stop { &x.stop_ptr } else { &x.begin_addr })).unwrap_or(0);
        let log_eval = fu64(&(p.config.log_trace_domain_size + p.config.log_n_cosets)).unwrap_or(0) as u32;
        let nf = fu64(&p.config.n_verifier_friendly_commitment_layers).unwrap_or(0);
        items.push(Item {
            name: "in-tree fixture".into(), layout: "recursive".into(), stone: "stone5".into(), hash: "keccak_160_lsb".into(),
            pow_family_keccak: true, n_friendly: nf, log_eval, memory, segs: (g(0, false), g(1, false), g(2, false), g(2, true)), proof: p,
        });
    }
    total.count("honest_proofs", items.len() as u64);
    let cells: Vec<(usize, &str)> = (0..items.len()).flat_map(|i| LAYOUTS.iter().map(move |l| (i, *l))).collect();
    let rep = par_run(n_threads(), cells.len() as u64, |k, rep| {
        let (i, layout) = cells[k as usize];
        let it = &items[i];
        let exp = expectation(it, layout);
        let sec = it.proof.config.security_bits();
        let res = catch(|| verify_as(layout, &it.proof, sec));
        let key = format!("{}|{}|{}|{}", it.name, layout, vcomp::build_hash().name(), build_stone());
        rep.case(&key, true);
        let replay = json!({"proof": it.name, "verified_as_layout": layout, "build": [vcomp::build_hash().name(), build_stone()], "expected": format!("{exp:?}")});
        let accepted = matches!(res, Ok(Ok(_)));
        rep.inc(&format!("cell.expected_{exp:?}.{}", if accepted { "accepted" } else { "rejected" }));
        match (exp, &res) {
            (Expect::Accept, Ok(Ok(pair))) => {
                rep.inc("honest_accepted");
                match hash_oracle(&it.memory, it.segs.0, it.segs.1, it.segs.2, it.segs.3) {
                    Ok(want) => {
                        if want != *pair {
                            rep.violation("C03|wrong-hashes", &format!("{}: returned (program, output) hashes differ from the address-based Pedersen chains", it.name), replay.clone());
                        } else {
                            rep.inc("hash_pairs_equal_oracle");
                        }
                    }
                    Err(e) => rep.inconclusive(&format!("hash oracle failed on {}: {e}", it.name)),
                }
                if rep.samples.len() < 4 {
                    rep.sample(json!({"proof": it.name, "layout": layout, "verdict": "accepted", "program_hash": hex(&pair.0), "output_hash": hex(&pair.1)}));
                }
                // serialise / deserialise round trip
                let s = serde_json::to_string(&it.proof).unwrap();
                match serde_json::from_str::<StarkProof>(&s) {
                    Ok(p2) => {
                        if p2 != it.proof {
                            rep.violation("C03|roundtrip-changes-proof", &format!("{}: serde round trip is not the identity", it.name), replay.clone());
                        }
                        let r2 = catch(|| verify_as(layout, &p2, sec));
                        if !matches!(&r2, Ok(Ok(p)) if p == pair) {
                            rep.violation("C03|roundtrip-changes-verdict", &format!("{}: verdict changed after a serde round trip", it.name), replay.clone());
                        } else {
                            rep.inc("roundtrip_same_verdict");
                        }
                    }
                    Err(e) => rep.violation("C03|roundtrip-fails", &format!("{}: {e}", it.name), replay.clone()),
                }
                // the round trip is the identity on every well-typed value near the honest one as well:
                // each vector emptied / cut to one element (an honest proof may legally carry an empty
                // authentication list when every row of a small table is queried), each optional absent
                {
                    let base = serde_json::to_value(&it.proof).unwrap();
                    let (_, arrays) = crate::mutate::enumerate(&base);
                    for a in &arrays {
                        for keep in [0usize, 1] {
                            let mut v = base.clone();
                            match crate::mutate::get_mut(&mut v, a).and_then(|x| x.as_array_mut()) {
                                Some(arr) if arr.len() > keep => arr.truncate(keep),
                                _ => continue,
                            }
                            let Ok(p1) = serde_json::from_value::<StarkProof>(v) else { continue };
                            rep.inc("roundtrip.shape_variants");
                            let back = serde_json::to_string(&p1).map_err(|e| e.to_string()).and_then(|s| serde_json::from_str::<StarkProof>(&s).map_err(|e| e.to_string()));
                            match back {
                                Ok(p2) if p2 == p1 => {}
                                Ok(_) => rep.violation("C03|roundtrip-changes-proof", &format!("{}: serde round trip is not the identity once {} holds {keep} element(s)", it.name, crate::mutate::path_str(a)), replay.clone()),
                                Err(e) => rep.violation("C03|roundtrip-fails", &format!("{}: with {} cut to {keep} element(s): {e}", it.name, crate::mutate::path_str(a)), replay.clone()),
                            }
                        }
                    }
                }
            }
            (Expect::Accept, Ok(Err(e))) => rep.violation("C03|honest-rejected", &format!("{} rejected by its matching build/layout: {e}", it.name), replay),
            (Expect::Accept, Err(p)) => rep.violation("C03|honest-panicked", &format!("{} panicked under its matching build: {}:{} {}", it.name, p.file, p.line, p.msg), replay),
            (Expect::Reject, Ok(Ok(_))) => rep.violation(
                &format!("C03|accepted-by-wrong-build|{}", if layout != it.layout { "layout" } else if it.stone != build_stone() { "stone" } else { "hash" }),
                &format!("{} accepted as layout {layout} by build {}/{}", it.name, vcomp::build_hash().name(), build_stone()),
                replay,
            ),
            (Expect::Reject, Err(_)) => {
                rep.inc("rejected_by_panic");
            }
            _ => {}
        }
    });
    total.merge(rep);
    total.note("cells = (honest proof, layout instantiation) under this (hash, stone) build; the orchestrator runs every build of the tier");
    total
}
