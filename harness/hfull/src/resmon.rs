//! Process-level resource monitors: a counting global allocator, an address-space limit, and a
//! CPU-time watchdog that aborts the worker (with a recognisable message) when one case burns
//! more CPU time than its budget. Decisions are on CPU time and logical counters, never wall time.
use std::alloc::{GlobalAlloc, Layout, System};
use std::sync::atomic::{AtomicU64, AtomicUsize, Ordering::Relaxed};

pub struct CountingAlloc;

static CUR: AtomicUsize = AtomicUsize::new(0);
static PEAK: AtomicUsize = AtomicUsize::new(0);
static TOTAL: AtomicU64 = AtomicU64::new(0);
static COUNT: AtomicU64 = AtomicU64::new(0);

unsafe impl GlobalAlloc for CountingAlloc {
    unsafe fn alloc(&self, l: Layout) -> *mut u8 {
        let p = System.alloc(l);
        if !p.is_null() {
            let c = CUR.fetch_add(l.size(), Relaxed) + l.size();
            PEAK.fetch_max(c, Relaxed);
            TOTAL.fetch_add(l.size() as u64, Relaxed);
            COUNT.fetch_add(1, Relaxed);
        }
        p
    }
    unsafe fn dealloc(&self, p: *mut u8, l: Layout) {
        CUR.fetch_sub(l.size(), Relaxed);
        System.dealloc(p, l)
    }
    unsafe fn realloc(&self, p: *mut u8, l: Layout, new: usize) -> *mut u8 {
        let q = System.realloc(p, l, new);
        if !q.is_null() {
            if new >= l.size() {
                let c = CUR.fetch_add(new - l.size(), Relaxed) + (new - l.size());
                PEAK.fetch_max(c, Relaxed);
                TOTAL.fetch_add((new - l.size()) as u64, Relaxed);
            } else {
                CUR.fetch_sub(l.size() - new, Relaxed);
            }
            COUNT.fetch_add(1, Relaxed);
        }
        q
    }
}

#[derive(Clone, Copy, Debug, Default)]
pub struct AllocSnap {
    pub cur: usize,
    pub peak: usize,
    pub total: u64,
    pub count: u64,
}

pub fn snap() -> AllocSnap {
    AllocSnap { cur: CUR.load(Relaxed), peak: PEAK.load(Relaxed), total: TOTAL.load(Relaxed), count: COUNT.load(Relaxed) }
}

/// start a measurement window: peak restarts from the current live size
pub fn window_start() -> AllocSnap {
    PEAK.store(CUR.load(Relaxed), Relaxed);
    snap()
}

pub fn set_address_space_limit(bytes: u64) {
    let lim = libc::rlimit { rlim_cur: bytes, rlim_max: bytes };
    unsafe {
        libc::setrlimit(libc::RLIMIT_AS, &lim);
    }
}

pub fn cpu_time_us() -> u64 {
    let mut ru: libc::rusage = unsafe { std::mem::zeroed() };
    unsafe {
        libc::getrusage(libc::RUSAGE_SELF, &mut ru);
    }
    (ru.ru_utime.tv_sec as u64 + ru.ru_stime.tv_sec as u64) * 1_000_000 + ru.ru_utime.tv_usec as u64 + ru.ru_stime.tv_usec as u64
}

static CASE_START_US: AtomicU64 = AtomicU64::new(0);
static CASE_ACTIVE: AtomicU64 = AtomicU64::new(0);
static CPU_LIMIT_US: AtomicU64 = AtomicU64::new(0);

pub fn case_begin(_desc: &str) {
    CASE_START_US.store(cpu_time_us(), Relaxed);
    CASE_ACTIVE.store(1, Relaxed);
}

pub fn case_end() {
    CASE_ACTIVE.store(0, Relaxed);
}

/// per-case CPU budget; exceeding it aborts the process with VERIF_CPU_BUDGET_EXCEEDED on stderr
pub fn start_cpu_watchdog(limit_s: f64) {
    CPU_LIMIT_US.store((limit_s * 1e6) as u64, Relaxed);
    std::thread::spawn(|| loop {
        std::thread::sleep(std::time::Duration::from_millis(250));
        if CASE_ACTIVE.load(Relaxed) == 1 {
            let used = cpu_time_us().saturating_sub(CASE_START_US.load(Relaxed));
            if used > CPU_LIMIT_US.load(Relaxed) {
                eprintln!("VERIF_CPU_BUDGET_EXCEEDED used_us={used} limit_us={}", CPU_LIMIT_US.load(Relaxed));
                std::process::abort();
            }
        }
    });
}
