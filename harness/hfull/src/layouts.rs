//! Layout dispatch: the harness binary enables all seven layout features; a check picks the
//! layout type at run time.
pub const LAYOUTS: [&str; 7] = [
    "dex", "dynamic", "recursive", "recursive_with_poseidon", "small", "starknet", "starknet_with_keccak",
];

#[macro_export]
macro_rules! with_layout {
    ($name:expr, $L:ident, $body:block) => {
        match $name {
            "dex" => { type $L = swiftness_air::layout::dex::Layout; $body }
            "dynamic" => { type $L = swiftness_air::layout::dynamic::Layout; $body }
            "recursive" => { type $L = swiftness_air::layout::recursive::Layout; $body }
            "recursive_with_poseidon" => { type $L = swiftness_air::layout::recursive_with_poseidon::Layout; $body }
            "small" => { type $L = swiftness_air::layout::small::Layout; $body }
            "starknet" => { type $L = swiftness_air::layout::starknet::Layout; $body }
            "starknet_with_keccak" => { type $L = swiftness_air::layout::starknet_with_keccak::Layout; $body }
            other => panic!("unknown layout {other}"),
        }
    };
}

pub fn build_stone() -> &'static str {
    #[cfg(feature = "stone5")]
    return "stone5";
    #[cfg(feature = "stone6")]
    return "stone6";
}
