//! C11 — config validation accepts exactly consistent, sufficiently secure configurations
//! (differential against the property's predicate over arbitrary-precision integers).
use crate::malformed::{apply_group, group_values, GROUPS};
use crate::mutate::{self, enumerate, get, path_class, path_str};
use crate::tamper::honest_for_build;
use num_bigint::BigUint;
use serde_json::{json, Value};
use starknet_crypto::Felt;
use swiftness_stark::config::StarkConfig;
use vcommon::guard::{catch, n_threads, par_run};
use vcommon::report::{Args, Report};
use vcommon::{big, Rng};

#[derive(Debug, PartialEq, Clone, Copy)]
pub enum Expect {
    Accept,
    Reject,
    DontCare,
}

fn b(f: &Felt) -> BigUint {
    big(f)
}
fn u(x: u64) -> BigUint {
    BigUint::from(x)
}

/// The statement of C11, literally, every number read as a non-negative integer.
/// Returns (expectation, first failed conjunct)
pub fn predicate(cfg: &StarkConfig, sec: &BigUint, n1: u64, n2: u64) -> (Expect, &'static str) {
    let pow = u(cfg.proof_of_work.n_bits as u64);
    let c = b(&cfg.log_n_cosets);
    let q = b(&cfg.n_queries);
    let t = b(&cfg.log_trace_domain_size);
    let nf = b(&cfg.n_verifier_friendly_commitment_layers);
    if pow < u(20) || pow > u(50) {
        return (Expect::Reject, "pow bits outside 20..=50");
    }
    if c < u(1) || c > u(16) {
        return (Expect::Reject, "blow-up exponent outside 1..=16");
    }
    if q < u(1) || q > u(48) {
        return (Expect::Reject, "query count outside 1..=48");
    }
    if &q * &c + &pow < *sec {
        return (Expect::Reject, "security level not reached");
    }
    if b(&cfg.traces.original.n_columns) != u(n1) || b(&cfg.traces.interaction.n_columns) != u(n2) {
        return (Expect::Reject, "trace column counts differ from the layout's");
    }
    let e = &t + &c;
    for v in [&cfg.traces.original.vector, &cfg.traces.interaction.vector, &cfg.composition.vector] {
        if b(&v.height) != e {
            return (Expect::Reject, "trace/composition height != trace exponent + blow-up exponent");
        }
        if b(&v.n_verifier_friendly_commitment_layers) != nf {
            return (Expect::Reject, "trace/composition commitment does not carry the global friendly-layer count");
        }
    }
    let f = &cfg.fri;
    let nl = b(&f.n_layers);
    if nl < u(2) || nl > u(15) {
        return (Expect::Reject, "FRI layer count outside 2..=15");
    }
    let nl = u64::try_from(nl).unwrap() as usize;
    if f.fri_step_sizes.len() < nl || f.inner_layers.len() < nl - 1 {
        return (Expect::Reject, "FRI vectors shorter than the layer count needs");
    }
    if b(&f.fri_step_sizes[0]) != u(0) {
        return (Expect::Reject, "first FRI step is not 0");
    }
    let lis = b(&f.log_input_size);
    let mut sum = u(0);
    for i in 1..nl {
        let s = b(&f.fri_step_sizes[i]);
        if s < u(1) || s > u(4) {
            return (Expect::Reject, "FRI step outside 1..=4");
        }
        sum += &s;
        let l = &f.inner_layers[i - 1];
        if b(&l.n_columns) != (u(1) << u64::try_from(s.clone()).unwrap()) {
            return (Expect::Reject, "FRI layer does not have 2^step columns");
        }
        // telescoping heights (integers: the height may not wrap below zero)
        if sum > lis || b(&l.vector.height) != &lis - &sum {
            return (Expect::Reject, "FRI layer heights do not telescope");
        }
    }
    let lb = b(&f.log_last_layer_degree_bound);
    if lb > u(15) {
        return (Expect::Reject, "last-layer bound above 2^15");
    }
    if lis != &sum + &lb + &c {
        return (Expect::Reject, "FRI input size != sum of steps + last-layer bound + blow-up exponent");
    }
    if lis != e {
        return (Expect::Reject, "FRI input size != evaluation-domain exponent");
    }
    // ---- constraints the statement does not list: either verdict is accepted
    for i in 1..nl {
        if b(&f.inner_layers[i - 1].vector.n_verifier_friendly_commitment_layers) != nf {
            return (Expect::DontCare, "FRI layer friendly count");
        }
    }
    if f.fri_step_sizes.len() > nl || f.inner_layers.len() > nl - 1 {
        return (Expect::DontCare, "vectors longer than needed");
    }
    if n1 < 1 || n1 > 128 || n2 < 1 || n2 > 128 {
        return (Expect::DontCare, "column range");
    }
    (Expect::Accept, "")
}

fn synth(rng: &mut Rng, template: &StarkConfig) -> (StarkConfig, u64, u64) {
    let cols: [(u64, u64); 7] = [(21, 1), (7, 3), (6, 2), (23, 2), (9, 1), (12, 3), (rng.range(1, 128), rng.range(1, 128))];
    let (n1, n2) = *rng.pick(&cols);
    let nl = match rng.below(6) {
        0 => 2,
        1 => 15,
        _ => rng.range(2, 15),
    } as usize;
    let mut steps = vec![0u64];
    for _ in 1..nl {
        steps.push(rng.range(1, 4));
    }
    let lb = rng.range(0, 15);
    let c = rng.range(1, 16);
    let sum: u64 = steps.iter().sum();
    let t = sum + lb;
    let nf = *rng.pick(&[0u64, 10, 23, 100, 9999, t + c, t + c + 1]);
    let mut cfg: StarkConfig = serde_json::from_value(serde_json::to_value(template).unwrap()).unwrap();
    let f = |x: u64| Felt::from(x);
    let vec_cfg = |h: u64| swiftness_commitment::vector::config::Config { height: f(h), n_verifier_friendly_commitment_layers: f(nf) };
    cfg.traces.original.n_columns = f(n1);
    cfg.traces.interaction.n_columns = f(n2);
    cfg.traces.original.vector = vec_cfg(t + c);
    cfg.traces.interaction.vector = vec_cfg(t + c);
    cfg.composition.vector = vec_cfg(t + c);
    cfg.fri.log_input_size = f(t + c);
    cfg.fri.n_layers = f(nl as u64);
    cfg.fri.fri_step_sizes = steps.iter().map(|s| f(*s)).collect();
    cfg.fri.log_last_layer_degree_bound = f(lb);
    let mut h = t + c;
    cfg.fri.inner_layers = steps[1..]
        .iter()
        .map(|s| {
            h -= s;
            swiftness_commitment::table::config::Config { n_columns: f(1 << s), vector: vec_cfg(h) }
        })
        .collect();
    cfg.proof_of_work.n_bits = rng.range(20, 50) as u8;
    cfg.log_trace_domain_size = f(t);
    cfg.n_queries = f(rng.range(1, 48));
    cfg.log_n_cosets = f(c);
    cfg.n_verifier_friendly_commitment_layers = f(nf);
    (cfg, n1, n2)
}

fn boundary_values(orig: &BigUint, is_hex: bool, int_max: u64) -> Vec<(String, BigUint)> {
    let mut v = mutate::extreme_values(is_hex, int_max);
    let one = BigUint::from(1u8);
    v.push(("+1".into(), orig + &one));
    if *orig > BigUint::from(0u8) {
        v.push(("-1".into(), orig - &one));
    }
    for k in [2u64, 4, 5, 15, 16, 17, 19, 20, 21, 47, 48, 49, 50, 51, 128, 129] {
        v.push((k.to_string(), BigUint::from(k)));
    }
    // the original value with extra high limbs (a conversion that keeps only the low 32 / 64 / 128 bits
    // would read the original back)
    if is_hex {
        for (l, sh, m) in [("+2^32", 32u32, 1u8), ("+2^64", 64, 1), ("+3*2^64", 64, 3), ("+2^128", 128, 1), ("+2^192", 192, 1), ("+7*2^248", 248, 7)] {
            let x = orig + (BigUint::from(m) << sh);
            if x < vcommon::prime() {
                v.push((l.to_string(), x));
            }
        }
    }
    if is_hex {
        // exponent aliases: 2^x is the same field element for x and x + k*ord(2)
        for m in [1u8, 7] {
            let x = orig + vcommon::ord2() * BigUint::from(m);
            if x < vcommon::prime() {
                v.push((format!("+{m}*ord(2)"), x));
            }
        }
    }
    if !is_hex {
        v.retain(|(_, x)| *x <= BigUint::from(int_max));
    }
    v
}

pub fn run(args: &Args) -> Report {
    let seed = args.u64("seed", 1);
    let thorough = args.thorough();
    let repo = args.str("repo", "/repo");
    let base = Rng::new(seed).fork("config");
    let honest = honest_for_build(&repo);
    let mut total = Report::new();
    if honest.is_empty() {
        total.inconclusive("no honest proof to take seed configurations from");
        return total;
    }
    // seed configurations: honest ones + synthesised valid ones
    struct SeedCfg {
        name: String,
        proof_idx: usize,
        cfg: Option<StarkConfig>,
        n1: u64,
        n2: u64,
    }
    let mut seeds: Vec<SeedCfg> = vec![];
    for (i, h) in honest.iter().enumerate() {
        let (n1, n2) = crate::with_layout!(h.layout.as_str(), L, {
            use swiftness_air::layout::GenericLayoutTrait;
            (L::get_num_columns_first(&h.proof.public_input).unwrap() as u64, L::get_num_columns_second(&h.proof.public_input).unwrap() as u64)
        });
        seeds.push(SeedCfg { name: h.name.clone(), proof_idx: i, cfg: None, n1, n2 });
    }
    let n_synth = if thorough { 500 } else { 30 };
    let mut r = base.fork("synth");
    for k in 0..n_synth {
        let (cfg, n1, n2) = synth(&mut r, &honest[0].proof.config);
        seeds.push(SeedCfg { name: format!("synthesised #{k}"), proof_idx: 0, cfg: Some(cfg), n1, n2 });
    }
    if !thorough {
        // quick: a seeded subset of the honest ones plus all synthesised
        let keep = 4usize.min(honest.len());
        let mut idx: Vec<usize> = (0..honest.len()).collect();
        base.fork("subset").shuffle(&mut idx);
        let chosen: std::collections::BTreeSet<usize> = idx.into_iter().take(keep).collect();
        let mut k = 0;
        seeds.retain(|s| {
            let is_honest = s.cfg.is_none();
            let r = !is_honest || chosen.contains(&k);
            if is_honest {
                k += 1;
            }
            r
        });
    }
    let rep = par_run(n_threads(), seeds.len() as u64, |si, rep| {
        let s = &seeds[si as usize];
        let mut rng = base.fork(&format!("seed{si}"));
        let mut proof: swiftness_stark::types::StarkProof = serde_json::from_value(serde_json::to_value(&honest[s.proof_idx].proof).unwrap()).unwrap();
        if let Some(c) = &s.cfg {
            proof.config = serde_json::from_value(serde_json::to_value(c).unwrap()).unwrap();
        }
        let q = big(&proof.config.n_queries);
        let c = big(&proof.config.log_n_cosets);
        let level = q * c + BigUint::from(proof.config.proof_of_work.n_bits as u64);
        let base_json = serde_json::to_value(&proof.config).unwrap();
        let check = |rep: &mut Report, cfg: &StarkConfig, sec: &BigUint, label: &str| {
            let (exp, why) = predicate(cfg, sec, s.n1, s.n2);
            let secf = vcommon::felt_from_big(sec);
            let (n1, n2) = (s.n1, s.n2);
            let got = catch(|| cfg.validate(secf, Felt::from(n1), Felt::from(n2)).map_err(|e| format!("{e:?}")));
            let key = format!("{}|{}|{}", s.name, label, sec);
            rep.case(&key, true);
            let outcome = match &got {
                Ok(Ok(())) => "accepted",
                Ok(Err(_)) => "rejected",
                Err(_) => "panicked",
            };
            rep.inc(&format!("expected_{exp:?}.{outcome}"));
            let replay = json!({"seed_config": s.name, "edit": label, "security_bits": sec.to_string(), "config": serde_json::to_value(cfg).unwrap(), "predicate": format!("{exp:?}: {why}")});
            match (exp, outcome) {
                (Expect::Reject, "accepted") => rep.violation(&format!("C11|accepted-inconsistent|{why}"), &format!("validate accepted a configuration the statement excludes: {why} [{label}]"), replay),
                (Expect::Accept, "rejected") | (Expect::Accept, "panicked") => rep.violation(&format!("C11|rejected-consistent|{}", got.as_ref().ok().and_then(|r| r.as_ref().err()).map(|e| e.chars().take(40).collect::<String>()).unwrap_or("panic".into())), &format!("validate did not accept a consistent configuration [{label}]: {got:?}"), replay),
                _ => {}
            }
            if exp == Expect::Accept && rep.samples.len() < 2 {
                rep.sample(json!({"seed_config": s.name, "edit": label, "security_bits": sec.to_string(), "expected": "accept", "observed": outcome}));
            }
        };
        // the seed itself at its exact level, one below, one above
        check(rep, &proof.config, &level, "unchanged");
        if level > BigUint::from(0u8) {
            check(rep, &proof.config, &(&level - BigUint::from(1u8)), "unchanged, level-1");
        }
        check(rep, &proof.config, &(&level + BigUint::from(1u8)), "unchanged, level+1");
        check(rep, &proof.config, &BigUint::from(0u8), "unchanged, level 0");
        check(rep, &proof.config, &(vcommon::prime() - BigUint::from(1u8)), "unchanged, level p-1");
        // (a) every numeric field at boundary values
        let (leaves, arrays) = enumerate(&base_json);
        for l in &leaves {
            let cur = get(&base_json, l).unwrap();
            let Some(orig) = mutate::leaf_big(cur) else { continue };
            let is_hex = cur.is_string();
            for (k, v) in boundary_values(&orig, is_hex, mutate::int_max_for(l)) {
                let mut j = base_json.clone();
                if !mutate::set_leaf(&mut j, l, &v) {
                    continue;
                }
                if let Ok(cfg) = serde_json::from_value::<StarkConfig>(j) {
                    check(rep, &cfg, &level, &format!("{} = {k}", path_str(l)));
                    // also at level 0, so that an edit which lowers the security sum is not masked by
                    // the security check itself
                    check(rep, &cfg, &BigUint::from(0u8), &format!("{} = {k} (level 0)", path_str(l)));
                    rep.inc(&format!("field.{}", path_class(l)));
                }
            }
        }
        // (c) vector truncations / extensions
        for a in &arrays {
            let len = get(&base_json, a).and_then(|x| x.as_array()).map(|x| x.len()).unwrap_or(0);
            for n in [0usize, 1, len.saturating_sub(1)] {
                if n < len {
                    let mut j = base_json.clone();
                    mutate::get_mut(&mut j, a).unwrap().as_array_mut().unwrap().truncate(n);
                    if let Ok(cfg) = serde_json::from_value::<StarkConfig>(j) {
                        check(rep, &cfg, &level, &format!("{} truncated to {n}", path_str(a)));
                    }
                }
            }
            let mut j = base_json.clone();
            let arr = mutate::get_mut(&mut j, a).unwrap().as_array_mut().unwrap();
            if let Some(last) = arr.last().cloned() {
                arr.push(last);
                if let Ok(cfg) = serde_json::from_value::<StarkConfig>(j) {
                    check(rep, &cfg, &level, &format!("{} extended", path_str(a)));
                }
            }
        }
        // (b) consistent re-declarations (groups of fields moved together)
        for g in GROUPS {
            for v in group_values(g) {
                let mut p2: swiftness_stark::types::StarkProof = serde_json::from_value(serde_json::to_value(&proof).unwrap()).unwrap();
                apply_group(&mut p2, g, v);
                // judge at the re-declared config's own level and at the seed's level
                let q2 = big(&p2.config.n_queries);
                let c2 = big(&p2.config.log_n_cosets);
                let lvl2 = q2 * c2 + BigUint::from(p2.config.proof_of_work.n_bits as u64);
                check(rep, &p2.config, &level, &format!("group {g}({v})"));
                if lvl2 < vcommon::prime() {
                    check(rep, &p2.config, &lvl2, &format!("group {g}({v}) at its own level"));
                }
                rep.inc(&format!("group.{g}"));
                // with a wrap-inducing query count (the security sum must not be taken mod p)
                if g == "blowup_mod_p" {
                    for nq in [16u64, 20, 48] {
                        p2.config.n_queries = Felt::from(nq);
                        check(rep, &p2.config, &level, &format!("group {g}({v}) + n_queries={nq}"));
                    }
                }
            }
        }
        // two cooperating fields: every in-range blow-up exponent with out-of-range query counts etc.
        for e in crate::malformed::cross_blowup_queries() {
            if let crate::malformed::Edit::Multi(es) = &e {
                let mut p2: swiftness_stark::types::StarkProof = serde_json::from_value(serde_json::to_value(&proof).unwrap()).unwrap();
                let mut label = String::new();
                for g in es {
                    if let crate::malformed::Edit::Group(n, v) = g {
                        apply_group(&mut p2, n, *v);
                        label += &format!("group {n}({v}) ");
                    }
                }
                check(rep, &p2.config, &level, &label);
                check(rep, &p2.config, &BigUint::from(20u8), &format!("{label}at level 20"));
                rep.inc("group.blowup_x_queries");
            }
        }
        // random pairs of single-field edits
        let n_pairs = if thorough { 300 } else { 60 };
        for _ in 0..n_pairs {
            let mut j = base_json.clone();
            let mut label = String::new();
            for _ in 0..2 {
                let l = rng.pick(&leaves);
                let cur = get(&base_json, l).unwrap();
                let Some(orig) = mutate::leaf_big(cur) else { continue };
                let vals = boundary_values(&orig, cur.is_string(), mutate::int_max_for(l));
                let (k, v) = rng.pick(&vals);
                mutate::set_leaf(&mut j, l, v);
                label += &format!("{} = {k}; ", path_str(l));
            }
            if let Ok(cfg) = serde_json::from_value::<StarkConfig>(j) {
                check(rep, &cfg, &level, &label);
            }
        }
    });
    total.merge(rep);
    let _ = Value::Null;
    total.note("seed configs: honest ones + synthesised valid ones (every layout's column counts, 2..=15 layers, steps 1..=4, last-layer log bound 0..=15, blow-up 1..=16, queries 1..=48, pow 20..=50); edits: every field at boundary/extreme values and +-1, vector truncation/extension, consistent re-declaration groups, random pairs; levels: exact, +-1, 0, p-1");
    total
}
