fn main() {}
