//! Full-verifier harness: hfull <cmd> [--seed n] [--tier t] [--out file] [--repo /repo] ...
mod layouts;
mod load;
mod malformed;
mod boundary;
mod coeffs;
mod config_check;
mod domains;
mod dynprofile;
mod forge;
mod matrix;
mod mutate;
mod parser_check;
mod parser_resource;
mod pihash;
mod protocol;
mod pubinput;
mod queries;
mod resmon;
mod resource;
mod tamper;
mod recorded;
mod stmtbind;
mod trace;
mod stone;

use vcommon::report::{Args, Report};

#[global_allocator]
static ALLOC: resmon::CountingAlloc = resmon::CountingAlloc;

fn dump(args: &Args) -> Report {
    let files = load::shipped(&args.str("repo", "/repo"));
    let f = files.iter().find(|f| f.name.contains(&args.str("match", "recursive/cairo0_stone5"))).unwrap();
    let p = load::load_via_repo(f).unwrap();
    let v = serde_json::to_value(&p).unwrap();
    fn shape(v: &serde_json::Value, depth: usize, out: &mut String, key: &str) {
        match v {
            serde_json::Value::Object(m) => {
                out.push_str(&format!("{}{}: {{\n", " ".repeat(depth), key));
                for (k, x) in m {
                    shape(x, depth + 1, out, k);
                }
            }
            serde_json::Value::Array(a) => {
                out.push_str(&format!("{}{}: [{}] first={}\n", " ".repeat(depth), key, a.len(), a.first().map(|x| x.to_string().chars().take(60).collect::<String>()).unwrap_or_default()));
            }
            x => out.push_str(&format!("{}{}: {}\n", " ".repeat(depth), key, x.to_string().chars().take(70).collect::<String>())),
        }
    }
    let mut s = String::new();
    shape(&v, 0, &mut s, "proof");
    println!("{s}");
    let t0 = std::time::Instant::now();
    let r = load::verify_as(&f.layout, &p, p.config.security_bits());
    println!("verify: {:?} in {:?}", r, t0.elapsed());
    Report::new()
}

fn main() {
    let args = Args::parse();
    vcommon::guard::install();
    let t0 = std::time::Instant::now();
    let rep = match args.cmd.as_str() {
        "dump" => Some(dump(&args)),
        "matrix" => Some(matrix::run(&args)),
        "domains" => Some(domains::run(&args)),
        "recorded" => Some(recorded::run(&args)),
        "tamper" => Some(tamper::run(&args)),
        "malformed" => Some(malformed::run(&args)),
        "queries" => Some(queries::run(&args)),
        "config" => Some(config_check::run(&args)),
        "forge" => Some(forge::run(&args)),
        "resource" => Some(resource::run(&args)),
        "pihash" => Some(pihash::run(&args)),
        "boundary" => Some(boundary::run(&args)),
        "coeffs" => Some(coeffs::run(&args)),
        "pubinput" => Some(pubinput::run(&args)),
        "parser" => Some(parser_check::run(&args)),
        "parserres" => Some(parser_resource::run(&args)),
        "protocol" => Some(protocol::run(&args)),
        "dynprofile" => Some(dynprofile::run(&args)),
        "stmtbind" => Some(stmtbind::run(&args)),
        _ => vcomp::dispatch(&args),
    };
    match rep {
        Some(mut rep) => {
            rep.count("wall_ms", t0.elapsed().as_millis() as u64);
            rep.note(&format!("build: {} {}", vcomp::build_hash().name(), layouts::build_stone()));
            rep.write(&args.str("out", "-"));
        }
        None => {
            eprintln!("unknown command {:?}", args.cmd);
            std::process::exit(3);
        }
    }
}
