//! StoneLoader — an independent reader of Stone proof JSON files (oracle side of C03 / C19).
//!
//! Plain string splitting and `serde_json::Value`; no regex, none of the repository's parser.
//! Produces the verifier's `StarkProof` through its serde representation, plus the facts the
//! monitors need (prover's V->P log, row labels, parameters).
use num_bigint::BigUint;
use serde_json::{json, Map, Value};
use std::collections::BTreeMap;
use swiftness_stark::types::StarkProof;
use vcommon::{prime, Felt};

pub const SEGMENT_ORDER: [&str; 13] = [
    "program", "execution", "output", "pedersen", "range_check", "ecdsa", "bitwise", "ec_op", "keccak",
    "poseidon", "range_check96", "add_mod", "mul_mod",
];

#[derive(Debug, Clone, Default)]
pub struct ProverLog {
    pub interaction_elements: Vec<Felt>,
    pub constraint_alpha: Option<Felt>,
    pub oods_point: Option<Felt>,
    pub oods_alpha: Option<Felt>,
    pub fri_eval_points: Vec<Felt>,
    pub query_indices: Vec<u64>,
}

#[derive(Debug, Clone)]
pub struct Loaded {
    pub proof_json: Value,
    pub layout: String,
    pub commitment_hash: String,
    pub pow_hash: String,
    pub n_friendly: u64,
    pub has_friendly_key: bool,
    pub log: ProverLog,
    /// rows decommitted in trace 0 (from the `Row r, Column c` labels), in stream order, deduped
    pub rows_trace0: Vec<u64>,
    /// address -> value of page 0
    pub memory: BTreeMap<u64, Felt>,
    pub segments: BTreeMap<String, (u64, u64)>,
    pub log_eval: u32,
}

impl Loaded {
    pub fn proof(&self) -> Result<StarkProof, String> {
        serde_json::from_value(self.proof_json.clone()).map_err(|e| format!("verifier types rejected the loaded proof: {e}"))
    }
}

#[derive(Debug, Clone, PartialEq)]
pub enum LoadError {
    /// the file is malformed or holds values the verifier's types cannot represent
    Malformed(String),
}

fn bad<T>(s: impl Into<String>) -> Result<T, LoadError> {
    Err(LoadError::Malformed(s.into()))
}

/// strict hex: optional 0x, at least one digit, only [0-9a-fA-F]
pub fn parse_hex(s: &str) -> Option<BigUint> {
    let t = s.trim();
    let t = t.strip_prefix("0x").unwrap_or(t);
    if t.is_empty() || !t.bytes().all(|b| b.is_ascii_hexdigit()) {
        return None;
    }
    BigUint::parse_bytes(t.as_bytes(), 16)
}

fn felt_hex(b: &BigUint) -> Result<String, LoadError> {
    if *b >= prime() {
        return bad(format!("value 0x{:x} is not a field element", b));
    }
    Ok(format!("0x{:x}", b))
}

fn hexu(v: u64) -> String {
    format!("0x{:x}", v)
}

fn get_u64(v: &Value, what: &str) -> Result<u64, LoadError> {
    v.as_u64().ok_or(LoadError::Malformed(format!("{what} is not a non-negative integer")))
}

fn log2_exact(x: u64, what: &str) -> Result<u32, LoadError> {
    if x == 0 || x & (x - 1) != 0 {
        return bad(format!("{what} = {x} is not a power of two"));
    }
    Ok(x.trailing_zeros())
}

pub struct Line {
    pub from_prover: bool,
    pub path: String,
    pub label: String,
    pub kind: String,
    pub value: String,
}

/// "P->V[a:b]: /cpu air/<path>: <label>: Kind(value)"  |  "V->P: /cpu air/<path>: <label>: Kind(value)"
pub fn split_line(l: &str) -> Option<Line> {
    let (from_prover, rest) = if let Some(r) = l.strip_prefix("P->V[") {
        let close = r.find("]: ")?;
        let range = &r[..close];
        let mut it = range.split(':');
        let a = it.next()?;
        let b = it.next()?;
        if it.next().is_some() || a.is_empty() || b.is_empty() || !a.bytes().all(|c| c.is_ascii_digit()) || !b.bytes().all(|c| c.is_ascii_digit()) {
            return None;
        }
        (true, &r[close + 3..])
    } else if let Some(r) = l.strip_prefix("V->P: ") {
        (false, r)
    } else {
        return None;
    };
    let rest = rest.strip_prefix("/cpu air/")?;
    if !rest.ends_with(')') {
        return None;
    }
    let open = rest.rfind('(')?;
    let value = rest[open + 1..rest.len() - 1].to_string();
    let head = &rest[..open];
    // head = "<path>: <label...>: Kind"  (label may be empty: "OODS values: : Field Elements")
    let first = head.find(": ")?;
    let path = head[..first].to_string();
    let tail = &head[first + 2..];
    let (label, kind) = match tail.rfind(": ") {
        Some(i) => (tail[..i].to_string(), tail[i + 2..].to_string()),
        None => (String::new(), tail.to_string()),
    };
    Some(Line { from_prover, path, label, kind, value })
}

pub fn layout_code(name: &str) -> String {
    format!("0x{}", name.bytes().map(|b| format!("{:02x}", b)).collect::<String>())
}

pub fn columns_for(layout: &str, dynamic: Option<&Map<String, Value>>) -> Result<(u64, u64), LoadError> {
    use swiftness_air::layout::*;
    Ok(match layout {
        "dex" => (dex::Layout::NUM_COLUMNS_FIRST as u64, dex::Layout::NUM_COLUMNS_SECOND as u64),
        "recursive" => (recursive::Layout::NUM_COLUMNS_FIRST as u64, recursive::Layout::NUM_COLUMNS_SECOND as u64),
        "recursive_with_poseidon" => (recursive_with_poseidon::Layout::NUM_COLUMNS_FIRST as u64, recursive_with_poseidon::Layout::NUM_COLUMNS_SECOND as u64),
        "small" => (small::Layout::NUM_COLUMNS_FIRST as u64, small::Layout::NUM_COLUMNS_SECOND as u64),
        "starknet" => (starknet::Layout::NUM_COLUMNS_FIRST as u64, starknet::Layout::NUM_COLUMNS_SECOND as u64),
        "starknet_with_keccak" => (starknet_with_keccak::Layout::NUM_COLUMNS_FIRST as u64, starknet_with_keccak::Layout::NUM_COLUMNS_SECOND as u64),
        "dynamic" => {
            let d = dynamic.ok_or(LoadError::Malformed("dynamic layout without dynamic_params".into()))?;
            (
                get_u64(d.get("num_columns_first").unwrap_or(&Value::Null), "num_columns_first")?,
                get_u64(d.get("num_columns_second").unwrap_or(&Value::Null), "num_columns_second")?,
            )
        }
        other => return bad(format!("unsupported layout {other}")),
    })
}

pub fn load(text: &str) -> Result<Loaded, LoadError> {
    let root: Value = serde_json::from_str(text).map_err(|e| LoadError::Malformed(format!("json: {e}")))?;
    let params = root.get("proof_parameters").ok_or(LoadError::Malformed("no proof_parameters".into()))?;
    let stark = params.get("stark").ok_or(LoadError::Malformed("no stark".into()))?;
    let fri = stark.get("fri").ok_or(LoadError::Malformed("no fri".into()))?;
    let steps: Vec<u64> = fri
        .get("fri_step_list")
        .and_then(|v| v.as_array())
        .ok_or(LoadError::Malformed("no fri_step_list".into()))?
        .iter()
        .map(|v| get_u64(v, "fri step"))
        .collect::<Result<_, _>>()?;
    if steps.is_empty() {
        return bad("empty fri_step_list");
    }
    let last_bound = get_u64(fri.get("last_layer_degree_bound").unwrap_or(&Value::Null), "last_layer_degree_bound")?;
    let lb = log2_exact(last_bound, "last_layer_degree_bound")?;
    let n_queries = get_u64(fri.get("n_queries").unwrap_or(&Value::Null), "n_queries")?;
    let pow_bits = get_u64(fri.get("proof_of_work_bits").unwrap_or(&Value::Null), "proof_of_work_bits")?;
    if pow_bits > 255 {
        return bad(format!("proof_of_work_bits {pow_bits} does not fit the verifier's u8"));
    }
    let log_n_cosets = get_u64(stark.get("log_n_cosets").unwrap_or(&Value::Null), "log_n_cosets")?;
    let has_friendly_key = params.get("n_verifier_friendly_commitment_layers").is_some();
    let n_friendly = match params.get("n_verifier_friendly_commitment_layers") {
        Some(v) => get_u64(v, "n_verifier_friendly_commitment_layers")?,
        None => 0,
    };
    for (k, v) in [("n_queries", n_queries), ("log_n_cosets", log_n_cosets), ("n_friendly", n_friendly)] {
        if v > u32::MAX as u64 {
            return bad(format!("{k} = {v} overflows the file format's u32"));
        }
    }
    let commitment_hash = params.get("commitment_hash").and_then(|v| v.as_str()).unwrap_or("").to_string();
    let pow_hash = params.get("pow_hash").and_then(|v| v.as_str()).unwrap_or("").to_string();

    // ---- public input
    let pi = root.get("public_input").ok_or(LoadError::Malformed("no public_input".into()))?;
    let layout = pi.get("layout").and_then(|v| v.as_str()).ok_or(LoadError::Malformed("no layout".into()))?.to_string();
    let dynamic = match pi.get("dynamic_params") {
        None | Some(Value::Null) => None,
        Some(Value::Object(m)) if m.is_empty() => None,
        Some(Value::Object(m)) => Some(m.clone()),
        Some(_) => return bad("dynamic_params is not an object"),
    };
    let n_steps = get_u64(pi.get("n_steps").unwrap_or(&Value::Null), "n_steps")?;
    let log_n_steps = log2_exact(n_steps, "n_steps")?;
    let rc_min = get_u64(pi.get("rc_min").unwrap_or(&Value::Null), "rc_min")?;
    let rc_max = get_u64(pi.get("rc_max").unwrap_or(&Value::Null), "rc_max")?;
    let cpu_step = match &dynamic {
        Some(d) => get_u64(d.get("cpu_component_step").unwrap_or(&Value::Null), "cpu_component_step")?,
        None => 1,
    };
    let trace_len = 16u64.checked_mul(cpu_step).and_then(|x| x.checked_mul(n_steps)).ok_or(LoadError::Malformed("trace length overflows".into()))?;
    let log_trace = log2_exact(trace_len, "trace length")?;
    let log_eval = log_trace as u64 + log_n_cosets;
    let (ncol1, ncol2) = columns_for(&layout, dynamic.as_ref())?;

    let segs = pi.get("memory_segments").and_then(|v| v.as_object()).ok_or(LoadError::Malformed("no memory_segments".into()))?;
    let mut segments = BTreeMap::new();
    let mut seg_list: Vec<(usize, u64, u64)> = vec![];
    for (name, v) in segs {
        let pos = SEGMENT_ORDER.iter().position(|s| s == name).ok_or(LoadError::Malformed(format!("unknown memory segment {name}")))?;
        let b = get_u64(v.get("begin_addr").unwrap_or(&Value::Null), "begin_addr")?;
        let s = get_u64(v.get("stop_ptr").unwrap_or(&Value::Null), "stop_ptr")?;
        segments.insert(name.clone(), (b, s));
        seg_list.push((pos, b, s));
    }
    seg_list.sort();
    let pm = pi.get("public_memory").and_then(|v| v.as_array()).ok_or(LoadError::Malformed("no public_memory".into()))?;
    if pm.is_empty() {
        return bad("empty public memory");
    }
    let mut main_page = vec![];
    let mut memory = BTreeMap::new();
    let mut padding = None;
    for (i, cell) in pm.iter().enumerate() {
        let addr = get_u64(cell.get("address").unwrap_or(&Value::Null), "address")?;
        let page = get_u64(cell.get("page").unwrap_or(&Value::Null), "page")?;
        let val = cell.get("value").and_then(|v| v.as_str()).and_then(parse_hex).ok_or(LoadError::Malformed(format!("public memory value #{i} is not hex")))?;
        let vh = felt_hex(&val)?;
        if i == 0 {
            padding = Some((addr, vh.clone()));
        }
        if page != 0 {
            return bad("public memory cell outside page 0: continuous pages are not representable by the CLI conversion");
        }
        main_page.push(json!({"address": hexu(addr), "value": vh}));
        memory.insert(addr, Felt::from_hex(&vh).unwrap());
    }
    let (pad_a, pad_v) = padding.unwrap();
    let mut public_input = json!({
        "log_n_steps": hexu(log_n_steps as u64),
        "range_check_min": hexu(rc_min),
        "range_check_max": hexu(rc_max),
        "layout": layout_code(&layout),
        "segments": seg_list.iter().map(|(_, b, s)| json!({"begin_addr": hexu(*b), "stop_ptr": hexu(*s)})).collect::<Vec<_>>(),
        "padding_addr": hexu(pad_a),
        "padding_value": pad_v,
        "main_page": main_page,
        "continuous_page_headers": [],
    });
    if let Some(d) = &dynamic {
        // Stone writes component-qualified names with a double underscore (add_mod__a0_suboffset);
        // the verifier's field names have a single one. Matching is by *name*, never by position.
        let renamed: Map<String, Value> = d.iter().map(|(k, v)| (k.replace("__", "_"), v.clone())).collect();
        if renamed.len() != d.len() {
            return bad("dynamic parameter names collide");
        }
        // exactly the verifier's parameter set: nothing missing, nothing surplus
        match serde_json::from_value::<swiftness_air::dynamic::DynamicParams>(Value::Object(renamed.clone())) {
            Ok(dp) => {
                let known = serde_json::to_value(&dp).unwrap();
                if known.as_object().map(|o| o.len()) != Some(renamed.len()) {
                    return bad("dynamic_params holds names the verifier does not know");
                }
            }
            Err(e) => return bad(format!("dynamic_params: {e}")),
        }
        public_input["dynamic_params"] = Value::Object(renamed);
    }

    // ---- annotations
    let ann = root.get("annotations").and_then(|v| v.as_array()).ok_or(LoadError::Malformed("no annotations".into()))?;
    let n_layers = steps.len();
    let mut original = vec![];
    let mut interaction = vec![];
    let mut composition = vec![];
    let mut oods: Option<Vec<String>> = None;
    let mut fri_roots: Vec<(u64, String)> = vec![];
    let mut last_layer: Option<Vec<String>> = None;
    let mut nonce: Option<BigUint> = None;
    let mut tr_leaves: [Vec<String>; 3] = Default::default();
    let mut tr_auth: [Vec<String>; 3] = Default::default();
    let mut fri_leaves: Vec<Vec<String>> = vec![vec![]; n_layers];
    let mut fri_auth: Vec<Vec<String>> = vec![vec![]; n_layers];
    let mut log = ProverLog::default();
    let mut rows0: Vec<u64> = vec![];
    let one = |v: &str| -> Result<String, LoadError> { felt_hex(&parse_hex(v).ok_or(LoadError::Malformed(format!("bad hex {v:?}")))?) };
    let many = |v: &str| -> Result<Vec<String>, LoadError> { v.split(',').map(|x| one(x)).collect() };
    for l in ann {
        let l = l.as_str().ok_or(LoadError::Malformed("annotation is not a string".into()))?;
        let Some(line) = split_line(l) else { continue };
        if !line.from_prover {
            let f = || -> Result<Felt, LoadError> { Ok(Felt::from_hex(&one(&line.value)?).unwrap()) };
            match (line.path.as_str(), line.kind.as_str()) {
                ("STARK/Interaction", "Field Element") => log.interaction_elements.push(f()?),
                ("STARK/Original", "Field Element") => log.constraint_alpha = Some(f()?),
                ("STARK/Out Of Domain Sampling/OODS values", "Field Element") => log.oods_point = Some(f()?),
                ("STARK/Out Of Domain Sampling", "Field Element") => log.oods_alpha = Some(f()?),
                ("STARK/FRI/QueryIndices", "Number") => log.query_indices.push(line.value.trim().parse().map_err(|_| LoadError::Malformed("bad query index".into()))?),
                (p, "Field Element") if p.starts_with("STARK/FRI/Commitment/Layer ") => log.fri_eval_points.push(f()?),
                _ => {}
            }
            continue;
        }
        let path = line.path.as_str();
        match path {
            "STARK/Original/Commit on Trace" if line.kind == "Hash" => original.push(one(&line.value)?),
            "STARK/Interaction/Commit on Trace" if line.kind == "Hash" => interaction.push(one(&line.value)?),
            "STARK/Out Of Domain Sampling/Commit on Trace" if line.kind == "Hash" => composition.push(one(&line.value)?),
            "STARK/Out Of Domain Sampling/OODS values" if line.kind == "Field Elements" => {
                oods.get_or_insert_with(Vec::new).extend(many(&line.value)?)
            }
            "STARK/FRI/Commitment/Last Layer" if line.kind == "Field Elements" => {
                last_layer.get_or_insert_with(Vec::new).extend(many(&line.value)?)
            }
            "STARK/FRI/Proof of Work" if line.kind == "Data" => {
                if nonce.is_some() {
                    return bad("more than one proof-of-work nonce");
                }
                nonce = Some(parse_hex(&line.value).ok_or(LoadError::Malformed("bad nonce hex".into()))?)
            }
            _ => {
                if let Some(k) = path.strip_prefix("STARK/FRI/Commitment/Layer ") {
                    if line.kind == "Hash" {
                        let k: u64 = k.parse().map_err(|_| LoadError::Malformed("bad FRI layer number".into()))?;
                        fri_roots.push((k, one(&line.value)?));
                    }
                } else if let Some(t) = path.strip_prefix("STARK/FRI/Decommitment/Layer 0/Virtual Oracle/Trace ") {
                    let t: usize = t.parse().map_err(|_| LoadError::Malformed("bad trace number".into()))?;
                    if t > 2 {
                        return bad("trace number above 2");
                    }
                    match line.kind.as_str() {
                        "Field Element" => {
                            if t == 0 {
                                if let Some(r) = line.label.strip_prefix("Row ") {
                                    if let Some(r) = r.split(',').next().and_then(|x| x.trim().parse::<u64>().ok()) {
                                        if rows0.last() != Some(&r) {
                                            rows0.push(r);
                                        }
                                    }
                                }
                            }
                            tr_leaves[t].push(one(&line.value)?)
                        }
                        "Hash" | "Data" => tr_auth[t].push(one(&line.value)?),
                        _ => {}
                    }
                } else if let Some(k) = path.strip_prefix("STARK/FRI/Decommitment/Layer ") {
                    let k: usize = k.parse().map_err(|_| LoadError::Malformed("bad FRI decommitment layer".into()))?;
                    if k == 0 || k >= n_layers {
                        return bad(format!("FRI decommitment for layer {k} but the step list has {n_layers} entries"));
                    }
                    match line.kind.as_str() {
                        "Field Element" => fri_leaves[k].push(one(&line.value)?),
                        "Hash" | "Data" => fri_auth[k].push(one(&line.value)?),
                        _ => {}
                    }
                }
            }
        }
    }
    let single = |v: &Vec<String>, what: &str| -> Result<String, LoadError> {
        if v.len() != 1 {
            return bad(format!("expected exactly one {what}, found {}", v.len()));
        }
        Ok(v[0].clone())
    };
    let original = single(&original, "original trace commitment")?;
    let interaction = single(&interaction, "interaction trace commitment")?;
    let composition = single(&composition, "composition commitment")?;
    let oods = oods.ok_or(LoadError::Malformed("no OODS values".into()))?;
    let last_layer = last_layer.ok_or(LoadError::Malformed("no last layer coefficients".into()))?;
    let nonce = nonce.ok_or(LoadError::Malformed("no proof of work nonce".into()))?;
    let nonce: u64 = u64::try_from(nonce).map_err(|_| LoadError::Malformed("nonce does not fit 64 bits".into()))?;
    if fri_roots.len() != n_layers - 1 {
        return bad(format!("{} FRI layer commitments for {} layers", fri_roots.len(), n_layers));
    }
    for (i, (k, _)) in fri_roots.iter().enumerate() {
        if *k != i as u64 + 1 {
            return bad("FRI layer commitments are not numbered 1..n-1 in stream order");
        }
    }
    // ---- config
    let mut inner_layers = vec![];
    let mut h = log_eval as i64;
    for (i, s) in steps.iter().enumerate() {
        if i == 0 {
            h -= *s as i64;
            continue;
        }
        if *s >= 32 {
            return bad("fri step too large");
        }
        h -= *s as i64;
        if h < 0 {
            return bad("fri steps exceed the evaluation domain");
        }
        inner_layers.push(json!({"n_columns": hexu(1u64 << s), "vector": {"height": hexu(h as u64), "n_verifier_friendly_commitment_layers": hexu(n_friendly)}}));
    }
    let vec_cfg = json!({"height": hexu(log_eval), "n_verifier_friendly_commitment_layers": hexu(n_friendly)});
    let config = json!({
        "traces": {
            "original": {"n_columns": hexu(ncol1), "vector": vec_cfg},
            "interaction": {"n_columns": hexu(ncol2), "vector": vec_cfg},
        },
        "composition": {"n_columns": "0x2", "vector": vec_cfg},
        "fri": {
            "log_input_size": hexu(log_eval),
            "n_layers": hexu(n_layers as u64),
            "inner_layers": inner_layers,
            "fri_step_sizes": steps.iter().map(|s| hexu(*s)).collect::<Vec<_>>(),
            "log_last_layer_degree_bound": hexu(lb as u64),
        },
        "proof_of_work": {"n_bits": pow_bits},
        "log_trace_domain_size": hexu(log_trace as u64),
        "n_queries": hexu(n_queries),
        "log_n_cosets": hexu(log_n_cosets),
        "n_verifier_friendly_commitment_layers": hexu(n_friendly),
    });
    let tw = |a: &Vec<String>| json!({"vector": {"authentications": a}});
    let proof_json = json!({
        "config": config,
        "public_input": public_input,
        "unsent_commitment": {
            "traces": {"original": original, "interaction": interaction},
            "composition": composition,
            "oods_values": oods,
            "fri": {"inner_layers": fri_roots.iter().map(|(_, r)| r.clone()).collect::<Vec<_>>(), "last_layer_coefficients": last_layer},
            "proof_of_work": {"nonce": nonce},
        },
        "witness": {
            "traces_decommitment": {"original": {"values": tr_leaves[0]}, "interaction": {"values": tr_leaves[1]}},
            "traces_witness": {"original": tw(&tr_auth[0]), "interaction": tw(&tr_auth[1])},
            "composition_decommitment": {"values": tr_leaves[2]},
            "composition_witness": tw(&tr_auth[2]),
            "fri_witness": {"layers": (1..n_layers).map(|k| json!({"leaves": fri_leaves[k], "table_witness": tw(&fri_auth[k])})).collect::<Vec<_>>()},
        },
    });
    Ok(Loaded {
        proof_json,
        layout,
        commitment_hash,
        pow_hash,
        n_friendly,
        has_friendly_key,
        log,
        rows_trace0: rows0,
        memory,
        segments,
        log_eval: log_eval as u32,
    })
}
