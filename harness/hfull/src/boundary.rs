//! C15 — closed-form AIR boundary values equal their defining products (differential vs naive).
use crate::tamper::honest_for_build;
use num_bigint::BigUint;
use serde_json::{json, Value};
use starknet_crypto::Felt;
use swiftness_air::diluted::get_diluted_product;
use swiftness_air::public_memory::PublicInput;
use vcommon::guard::{catch, n_threads, par_run};
use vcommon::report::{Args, Report};
use vcommon::{felt_from_big, hex, inv, pow_big, Rng};

fn dilute(x: u64, spacing: u32, n_bits: u32) -> Felt {
    let mut r = BigUint::from(0u8);
    for i in 0..n_bits {
        if (x >> i) & 1 == 1 {
            r |= BigUint::from(1u8) << (i * spacing);
        }
    }
    felt_from_big(&r)
}

/// r_1 = 1, r_{j+1} = r_j (1 + z u_j) + alpha u_j^2, u_j = dilute(j) - dilute(j-1); returns r_{2^n}
fn naive_diluted(n_bits: u32, spacing: u32, z: Felt, alpha: Felt) -> Felt {
    let mut r = Felt::ONE;
    let mut prev = dilute(0, spacing, n_bits);
    for j in 1..(1u64 << n_bits) {
        let cur = dilute(j, spacing, n_bits);
        let u = cur - prev;
        r = r * (Felt::ONE + z * u) + alpha * u * u;
        prev = cur;
    }
    r
}

fn special(rng: &mut Rng, k: u64) -> Felt {
    match k {
        0 => Felt::ZERO,
        1 => Felt::ONE,
        2 => Felt::ZERO - Felt::ONE,
        _ => rng.felt(),
    }
}

/// runs `f` on its own thread and gives up waiting after `secs` seconds (the thread is left behind; the
/// process ends when the report is written)
fn bounded<T: Send + 'static>(secs: u64, f: impl FnOnce() -> T + Send + 'static) -> Option<T> {
    let (tx, rx) = std::sync::mpsc::channel();
    std::thread::Builder::new().stack_size(64 << 20).spawn(move || { let _ = tx.send(f()); }).ok()?;
    rx.recv_timeout(std::time::Duration::from_secs(secs)).ok()
}

pub fn run(args: &Args) -> Report {
    let seed = args.u64("seed", 1);
    let thorough = args.thorough();
    let repo = args.str("repo", "/repo");
    let base = Rng::new(seed).fork("boundary");
    let mut total = Report::new();
    // ---- diluted product: all (n_bits, spacing) in 1..=16 x 1..=15
    let mut pairs = vec![];
    for nb in 1..=16u32 {
        for sp in 1..=15u32 {
            pairs.push((nb, sp));
        }
    }
    let n_za: u64 = if thorough { 20 } else { 4 };
    let rep = par_run(n_threads(), pairs.len() as u64, |i, rep| {
        let (nb, sp) = pairs[i as usize];
        let mut rng = base.fork(&format!("d{nb}.{sp}"));
        for k in 0..n_za {
            let z = special(&mut rng, if k < 3 { k } else { 9 });
            let alpha = special(&mut rng, if k >= 1 && k < 4 { k - 1 } else { 9 });
            let want = naive_diluted(nb, sp, z, alpha);
            // evaluated on a thread of its own: the recurrence takes microseconds (n_bits <= 16 rounds), so a
            // call that has not returned after 60 s is a loop that does not end, not a slow machine
            let got = match bounded(60, move || catch(|| get_diluted_product(Felt::from(nb), Felt::from(sp), z, alpha))) {
                Some(g) => g,
                None => {
                    rep.case(&format!("dil|{nb}|{sp}|{}|{}", hex(&z), hex(&alpha)), true);
                    rep.violation("C15|diluted-no-result", &format!("get_diluted_product(n_bits = {nb}, spacing = {sp}) did not return within 60 s (the defining recurrence has {nb} rounds)"), json!({"n_bits": nb, "spacing": sp, "z": hex(&z), "alpha": hex(&alpha)}));
                    break;
                }
            };
            rep.case(&format!("dil|{nb}|{sp}|{}|{}", hex(&z), hex(&alpha)), nb >= 2);
            rep.inc("diluted.cases");
            if nb == 16 && sp == 4 {
                rep.inc("diluted.layout_parameters_16_4");
            }
            let replay = json!({"n_bits": nb, "spacing": sp, "z": hex(&z), "alpha": hex(&alpha)});
            match got {
                Ok(g) if g == want => {}
                Ok(_) => rep.violation("C15|diluted-mismatch", "get_diluted_product differs from the defining recurrence over all 2^n_bits diluted values", replay),
                Err(p) => rep.violation("C15|diluted-panic", &format!("panic {}:{} {}", p.file, p.line, p.msg), replay),
            }
            if rep.samples.len() < 1 && nb == 16 && sp == 4 {
                rep.sample(json!({"n_bits": 16, "spacing": 4, "z": hex(&z), "alpha": hex(&alpha), "value": hex(&want)}));
            }
        }
    });
    total.merge(rep);
    // ---- public memory product ratio
    let honest = honest_for_build(&repo);
    let tpl: Value = honest.first().map(|h| serde_json::to_value(&h.proof.public_input).unwrap()).unwrap_or(Value::Null);
    if tpl.is_null() {
        total.inconclusive("no template public input");
        return total;
    }
    let n_mem: u64 = if thorough { 2000 } else { 200 };
    let n_real = honest.len() as u64;
    let rep = par_run(n_threads(), n_mem + n_real, |i, rep| {
        let mut rng = base.fork(&format!("m{i}"));
        let (pi, label): (PublicInput, String) = if i < n_real {
            (serde_json::from_value(serde_json::to_value(&honest[i as usize].proof.public_input).unwrap()).unwrap(), honest[i as usize].name.clone())
        } else {
            let n_cells = match rng.below(5) { 0 => 0, 1 => 1, _ => rng.range(2, 300) };
            let n_hdr = rng.range(0, 3);
            let mut v = tpl.clone();
            let mut cells: Vec<Value> = (0..n_cells).map(|_| json!({"address": hex(&Felt::from(rng.below(1 << 30))), "value": hex(&{ let k = rng.below(7); special(&mut rng, k) })})).collect();
            // repeated cells (the same (address, value) pair several times, adjacent or apart): every
            // occurrence contributes its own factor
            match rng.below(4) {
                0 if !cells.is_empty() => {
                    let mut rep_cells = vec![];
                    for c in cells.iter() {
                        for _ in 0..rng.range(1, 3) {
                            rep_cells.push(c.clone());
                        }
                    }
                    cells = rep_cells;
                }
                1 if !cells.is_empty() => {
                    let c0 = cells[0].clone();
                    let k = rng.below(cells.len() as u64) as usize;
                    cells[k] = c0.clone();
                    cells.push(c0);
                }
                _ => {}
            }
            let repeated = cells.windows(2).any(|w| w[0] == w[1]);
            if repeated {
                rep.inc("memory.pages_with_adjacent_equal_cells");
            }
            v["main_page"] = Value::Array(cells);
            v["continuous_page_headers"] = Value::Array((0..n_hdr).map(|_| json!({"start_address": "0x10", "size": hex(&Felt::from(rng.below(50))), "hash": "0x1", "prod": hex(&(rng.felt() + Felt::ONE))})).collect());
            v["padding_addr"] = json!(hex(&Felt::from(rng.below(1 << 20))));
            v["padding_value"] = json!(hex(&rng.felt()));
            (serde_json::from_value(v).unwrap(), format!("random memory #{i}"))
        };
        let z = rng.felt();
        let ka = rng.below(5);
        let alpha = special(&mut rng, ka);
        let total_len: u64 = pi.main_page.len() as u64 + pi.continuous_page_headers.iter().map(|h| vcommon::fu64(&h.size).unwrap()).sum::<u64>();
        // column sizes from the exact length up to the 128-bit range the layouts admit
        let size: BigUint = match rng.below(8) {
            0 => BigUint::from(total_len),
            1 => BigUint::from(total_len + 1),
            2 => BigUint::from(1u64 << 30),
            3 => (BigUint::from(1u8) << 64) + BigUint::from(rng.below(1 << 20)),
            4 => (BigUint::from(1u8) << 100) + BigUint::from(rng.next()),
            5 => (BigUint::from(1u8) << 127) - BigUint::from(rng.below(1000)),
            _ => BigUint::from(total_len + rng.below(1 << 20)),
        };
        // naive: z^size / ( prod_cells (z - (a + alpha v)) * prod_headers prod * pad^(size - len) )
        let mut den = Felt::ONE;
        for c in pi.main_page.iter() {
            den *= z - (c.address + alpha * c.value);
        }
        for h in &pi.continuous_page_headers {
            den *= h.prod;
        }
        let pad = z - (pi.padding_addr + alpha * pi.padding_value);
        den *= pow_big(pad, &(&size - BigUint::from(total_len)));
        if den == Felt::ZERO {
            rep.inc("memory.degenerate_skipped");
            return;
        }
        let want = pow_big(z, &size) * inv(den);
        let size_f = felt_from_big(&size);
        let got = catch(|| pi.get_public_memory_product_ratio(z, alpha, size_f));
        rep.inc(if size.bits() > 64 { "memory.column_size_above_2^64" } else { "memory.column_size_up_to_2^64" });
        rep.case(&format!("mem|{label}|{}|{}|{size}", hex(&z), hex(&alpha)), pi.main_page.len() >= 2);
        rep.inc(if i < n_real { "memory.real_public_memories" } else { "memory.random_public_memories" });
        let replay = json!({"public_memory": label, "cells": pi.main_page.len(), "pages": pi.continuous_page_headers.len(), "z": hex(&z), "alpha": hex(&alpha), "column_size": size.to_string()});
        match got {
            Ok(Ok(g)) if g == want => {}
            // den != 0 and size >= total_len here: the closed form is defined, so an error is a mismatch too
            Ok(_) => rep.violation("C15|memory-ratio-mismatch", "get_public_memory_product_ratio differs from z^size / (prod (z-(a+alpha v)) * page prods * padding^(size-len))", replay),
            Err(p) => rep.violation("C15|memory-ratio-panic", &format!("panic {}:{} {}", p.file, p.line, p.msg), replay),
        }
        if rep.samples.len() < 2 {
            rep.sample(json!({"public_memory": label, "cells": pi.main_page.len(), "column_size": size.to_string(), "ratio": hex(&want)}));
        }
    });
    total.merge(rep);
    total.note("diluted: all 240 (n_bits 1..=16, spacing 1..=15) pairs x (z, alpha) incl. 0, 1, -1 (n_bits = 0 is outside the closed form's contract); memory: honest public memories + random ones (0..=300 cells, 0..=3 page headers, column sizes from the exact length to 2^30)");
    total
}
