//! Protocol-level transcript monitor (C08 part 2, shared by every check that runs a verification).
//!
//! `run_verify` executes the real `StarkProof::verify` with the transcript hook recording; the
//! online checker `check_trace` then asserts that the recorded events (i) form an unbroken run of
//! the sponge model and (ii) follow the message grammar of the STARK protocol for *this* proof:
//! every prover message is absorbed, in order, and exactly the expected number of challenges is
//! squeezed between them. The trace of a rejected run must be a prefix of the grammar.
use starknet_crypto::{pedersen_hash, poseidon_hash_many, Felt};
use swiftness_stark::types::StarkProof;
use swiftness_transcript::verif::{self, Event};
use vcommon::guard::{catch, PanicRecord};
use vcommon::{fu64, hex};

#[derive(Debug, Clone)]
pub enum Verdict {
    Accepted(Felt, Felt),
    Rejected(String),
    Panicked(PanicRecord),
}

impl Verdict {
    pub fn accepted(&self) -> bool {
        matches!(self, Verdict::Accepted(..))
    }
    pub fn short(&self) -> String {
        match self {
            Verdict::Accepted(..) => "accepted".into(),
            Verdict::Rejected(e) => format!("rejected: {}", e.chars().take(120).collect::<String>()),
            Verdict::Panicked(p) => format!("panicked at {}:{} {}", p.file, p.line, p.msg.chars().take(80).collect::<String>()),
        }
    }
    /// coarse class of the rejection (the outermost error variants)
    pub fn class(&self) -> String {
        match self {
            Verdict::Accepted(..) => "accepted".into(),
            Verdict::Rejected(e) => {
                let mut s: String = e.chars().take_while(|c| *c != '{').collect();
                s = s.split("0x").next().unwrap_or("").to_string();
                let parts: Vec<&str> = s.split('(').map(|x| x.trim()).filter(|x| !x.is_empty()).take(4).collect();
                parts.join("/")
            }
            Verdict::Panicked(_) => "panicked".into(),
        }
    }
}

pub struct Run {
    pub verdict: Verdict,
    pub events: Vec<Event>,
    pub budget_exceeded: bool,
}

pub fn run_verify(layout: &str, proof: &StarkProof, security_bits: Felt, event_budget: u64) -> Run {
    verif::start(event_budget);
    let r = catch(|| crate::load::verify_as(layout, proof, security_bits));
    let events = verif::take();
    let mut budget_exceeded = false;
    let verdict = match r {
        Ok(Ok((a, b))) => Verdict::Accepted(a, b),
        Ok(Err(e)) => Verdict::Rejected(e),
        Err(p) => {
            budget_exceeded = p.is_budget();
            Verdict::Panicked(p)
        }
    };
    Run { verdict, events, budget_exceeded }
}

/// model of the public-input digest (transcript seed)
pub fn pi_hash_model(pi: &swiftness_air::public_memory::PublicInput, n_friendly: Felt, stone6: bool) -> Felt {
    let mut h = Felt::ZERO;
    for c in pi.main_page.iter() {
        h = pedersen_hash(&h, &c.address);
        h = pedersen_hash(&h, &c.value);
    }
    h = pedersen_hash(&h, &Felt::from(2 * pi.main_page.len() as u64));
    let mut data = vec![];
    if stone6 {
        data.push(n_friendly);
    }
    data.extend([pi.log_n_steps, pi.range_check_min, pi.range_check_max, pi.layout]);
    if let Some(d) = &pi.dynamic_params {
        // declaration (field) order: serde serialises struct fields in that order; the string is
        // scanned sequentially (a serde_json::Value map would re-sort the keys)
        let txt = serde_json::to_string(d).unwrap();
        for kv in txt.trim_start_matches('{').trim_end_matches('}').split(',') {
            let v = kv.rsplit(':').next().unwrap_or("");
            data.push(Felt::from(v.trim().parse::<u64>().expect("dynamic param value")));
        }
    }
    for s in &pi.segments {
        data.push(s.begin_addr);
        data.push(s.stop_ptr);
    }
    data.push(pi.padding_addr);
    data.push(pi.padding_value);
    data.push(Felt::from(pi.continuous_page_headers.len() as u64 + 1));
    data.push(Felt::from(pi.main_page.len() as u64));
    data.push(h);
    for hd in &pi.continuous_page_headers {
        data.extend([hd.start_address, hd.size, hd.hash]);
    }
    poseidon_hash_many(&data)
}

#[derive(Debug, Clone, PartialEq)]
enum Step {
    AbsorbFelt(Felt, &'static str),
    AbsorbVec(Vec<Felt>, &'static str),
    Squeeze(u64, &'static str),
    /// at most this many
    SqueezeUpTo(u64, &'static str),
}

pub fn n_interaction_elements(layout: &str) -> u64 {
    match layout {
        "dex" | "small" => 3,
        "dynamic" => 8,
        _ => 6,
    }
}

/// How far the verifier got, as a stage name (used to steer generators and as evidence)
#[derive(Debug, Clone, PartialEq)]
pub struct TraceSummary {
    pub stage: String,
    pub complete: bool,
    pub squeezes: u64,
    pub absorbs: u64,
}

pub fn check_trace(layout: &str, proof: &StarkProof, run: &Run, stone6: bool) -> Result<TraceSummary, String> {
    let ev = &run.events;
    vcomp::transcript_check::check_event_chain(ev)?;
    let squeezes = ev.iter().filter(|e| matches!(e, Event::Squeeze { .. })).count() as u64;
    let absorbs = ev.iter().filter(|e| matches!(e, Event::AbsorbFelt { .. } | Event::AbsorbVec { .. })).count() as u64;
    if ev.is_empty() {
        if run.verdict.accepted() {
            return Err("accepted without any transcript activity".into());
        }
        return Ok(TraceSummary { stage: "before-transcript".into(), complete: false, squeezes, absorbs });
    }
    // seed
    let u = &proof.unsent_commitment;
    let cfg = &proof.config;
    match &ev[0] {
        Event::New { digest, counter } => {
            let want = pi_hash_model(&proof.public_input, cfg.n_verifier_friendly_commitment_layers, stone6);
            if *digest != want || *counter != Felt::ZERO {
                return Err(format!("transcript seeded with {} instead of the public-input digest {}", hex(digest), hex(&want)));
            }
        }
        e => return Err(format!("first event is {e:?}, not the creation of the transcript")),
    }
    let n_layers = fu64(&cfg.fri.n_layers).unwrap_or(0);
    let mut grammar: Vec<Step> = vec![
        Step::AbsorbFelt(u.traces.original, "original-root"),
        Step::Squeeze(n_interaction_elements(layout), "interaction-elements"),
        Step::AbsorbFelt(u.traces.interaction, "interaction-root"),
        Step::Squeeze(1, "constraint-alpha"),
        Step::AbsorbFelt(u.composition, "composition-root"),
        Step::Squeeze(1, "oods-point"),
        Step::AbsorbVec(u.oods_values.clone(), "oods-values"),
        Step::Squeeze(1, "oods-alpha"),
    ];
    for i in 0..n_layers.saturating_sub(1) as usize {
        let root = u.fri.inner_layers.get(i).cloned();
        match root {
            Some(r) => {
                grammar.push(Step::AbsorbFelt(r, "fri-layer-root"));
                grammar.push(Step::Squeeze(1, "fri-eval-point"));
            }
            None => break, // the verifier cannot get past here (it panics/errs); prefix rule applies
        }
    }
    grammar.push(Step::AbsorbVec(u.fri.last_layer_coefficients.clone(), "fri-last-layer"));
    grammar.push(Step::AbsorbFelt(Felt::from(u.proof_of_work.nonce), "pow-nonce"));
    let nq = fu64(&cfg.n_queries).unwrap_or(u64::MAX);
    grammar.push(Step::SqueezeUpTo(nq, "queries"));

    let mut k = 1usize; // index into events
    let mut stage = "seeded".to_string();
    let mut complete = false;
    for (gi, g) in grammar.iter().enumerate() {
        if k >= ev.len() {
            break;
        }
        match g {
            Step::AbsorbFelt(v, name) => match &ev[k] {
                Event::AbsorbFelt { value, .. } if value == v => {
                    k += 1;
                    stage = name.to_string();
                }
                e => return Err(format!("expected absorb of {name} = {}, observed {}", hex(v), short(e))),
            },
            Step::AbsorbVec(v, name) => match &ev[k] {
                Event::AbsorbVec { values, .. } if values == v => {
                    k += 1;
                    stage = name.to_string();
                }
                e => return Err(format!("expected one vector absorb of {name} ({} elements), observed {}", v.len(), short(e))),
            },
            Step::Squeeze(n, name) => {
                let mut got = 0;
                while k < ev.len() && matches!(ev[k], Event::Squeeze { .. }) && got < *n {
                    k += 1;
                    got += 1;
                }
                if got < *n && k < ev.len() {
                    return Err(format!("only {got} of {n} challenges drawn for {name} before {}", short(&ev[k])));
                }
                if got == *n {
                    stage = name.to_string();
                }
            }
            Step::SqueezeUpTo(n, name) => {
                let mut got = 0;
                while k < ev.len() && matches!(ev[k], Event::Squeeze { .. }) {
                    k += 1;
                    got += 1;
                }
                if got > *n {
                    return Err(format!("{got} query challenges drawn, more than n_queries = {n}"));
                }
                if run.verdict.accepted() && got != *n {
                    return Err(format!("accepted with {got} query challenges drawn, n_queries = {n}"));
                }
                stage = name.to_string();
                if gi == grammar.len() - 1 {
                    complete = true;
                }
            }
        }
    }
    if k < ev.len() {
        return Err(format!("unexpected transcript activity after stage {stage}: {}", short(&ev[k])));
    }
    if run.verdict.accepted() && !complete {
        return Err(format!("accepted although the transcript only reached stage {stage}"));
    }
    Ok(TraceSummary { stage, complete, squeezes, absorbs })
}

fn short(e: &Event) -> String {
    match e {
        Event::New { digest, .. } => format!("new transcript({})", hex(digest)),
        Event::Squeeze { counter, .. } => format!("squeeze(counter={})", hex(counter)),
        Event::AbsorbFelt { value, .. } => format!("absorb_felt({})", hex(value)),
        Event::AbsorbVec { values, .. } => format!("absorb_vec(len={})", values.len()),
    }
}

/// challenges squeezed during a run, in order
pub fn squeezed(run: &Run) -> Vec<Felt> {
    run.events.iter().filter_map(|e| if let Event::Squeeze { out, .. } = e { Some(*out) } else { None }).collect()
}

/// digest of the transcript just before the nonce is absorbed (for the recorded PoW triples)
pub fn digest_before_nonce(run: &Run, nonce: u64) -> Option<Felt> {
    let nf = Felt::from(nonce);
    run.events.iter().rev().find_map(|e| match e {
        Event::AbsorbFelt { before, value, .. } if *value == nf => Some(*before),
        _ => None,
    })
}
