//! C17 — verification work is bounded by the size of the proof (resource monitor).
//!
//! Bounded restatement: for a proof whose serialised size is S bytes, holding N field elements,
//! one verification stays within  transcript events <= 64 + 4N,  peak heap <= 64*S + 64 MiB,
//! total allocated <= 4096*S + 256 MiB,  CPU time <= max(10 s, 200 x the honest original's).
//! All budgets are logical or CPU-time quantities; worker death (allocation failure under the
//! address-space limit, CPU watchdog) is attributed to the in-flight case by the parent.
use crate::layouts::build_stone;
use crate::malformed::{apply_edit, cross_blowup_queries, edit_class, edit_label, group_values, Edit, GROUPS};
use crate::mutate::{self, enumerate, get, Worker};
use crate::resmon;
use crate::tamper::honest_for_build;
use crate::trace::{self, Verdict};
use serde_json::json;
use vcommon::report::{Args, Report};
use vcommon::Rng;

pub fn run(args: &Args) -> Report {
    let seed = args.u64("seed", 1);
    let thorough = args.thorough();
    let repo = args.str("repo", "/repo");
    let mut worker = Worker::new(args);
    if args.u64("as_limit_gb", 8) > 0 {
        resmon::set_address_space_limit(args.u64("as_limit_gb", 8) << 30);
    }
    resmon::start_cpu_watchdog(args.u64("cpu_limit_s", 90) as f64);
    let mut rep = Report::new();
    let base_rng = Rng::new(seed).fork("resource").fork(vcomp::build_hash().name()).fork(build_stone());
    let mut honest = honest_for_build(&repo);
    if honest.is_empty() {
        rep.note("no honest proof for this build");
        return rep;
    }
    let _ = &mut honest;
    let mut idx = 0u64;
    for h in &honest {
        let sec = h.proof.config.security_bits();
        let base = serde_json::to_value(&h.proof).unwrap();
        let mut rng = base_rng.fork(&h.name);
        // baseline: the honest original, measured in this very process
        let w0 = resmon::window_start();
        let c0 = resmon::cpu_time_us();
        let run0 = trace::run_verify(&h.layout, &h.proof, sec, u64::MAX);
        let honest_cpu_us = resmon::cpu_time_us() - c0;
        let w1 = resmon::snap();
        if !run0.verdict.accepted() {
            rep.inconclusive(&format!("{}: original not accepted", h.name));
            continue;
        }
        if worker.shard == 0 {
            rep.count("honest.events", run0.events.len() as u64);
            rep.count("honest.peak_heap_bytes", (w1.peak - w0.cur) as u64);
            rep.count("honest.total_alloc_bytes", w1.total - w0.total);
            rep.count("honest.cpu_us", honest_cpu_us);
        }
        let cpu_limit_us = (200 * honest_cpu_us).max(10_000_000);
        // cases: every numeric leaf at every extreme value, alone; every group re-declaration;
        // combinations of a group with a single leaf
        let (leaves, _arrays) = enumerate(&base);
        let mut edits: Vec<Edit> = vec![];
        let mut leaf_edits: Vec<Edit> = vec![];
        for l in &leaves {
            let cur = get(&base, l).unwrap();
            for (k, v) in mutate::extreme_values(cur.is_string(), mutate::int_max_for(l)) {
                leaf_edits.push(Edit::Set(l.clone(), k, v));
            }
        }
        if !thorough {
            // all config / public-input scalars, a sample of the rest
            let (mut keep, mut rest): (Vec<Edit>, Vec<Edit>) = leaf_edits.into_iter().partition(|e| {
                let c = edit_class(e);
                // the dynamic layout's switches (builtin flags, row ratios, component step, column counts)
                // steer loops and divisions: always run, like the configuration numbers
                let dyn_switch = matches!(e, Edit::Set(p, ..) if { let ps = mutate::path_str(p); ps.contains("dynamic_params.uses_") || (ps.contains("dynamic_params.") && ps.ends_with("row_ratio")) || ps.ends_with("cpu_component_step") || ps.contains("num_columns_") });
                c.contains(" config.") || (c.contains(" public_input.") && !c.contains("main_page") && !c.contains("dynamic_params")) || c.contains("nonce") || dyn_switch
            });
            // quick runs every honest proof of the build: sample both groups
            rng.shuffle(&mut keep);
            let (dynk, mut keep): (Vec<Edit>, Vec<Edit>) = keep.into_iter().partition(|e| edit_class(e).contains("dynamic_params"));
            keep.truncate(200);
            keep.extend(dynk);
            rng.shuffle(&mut rest);
            rest.truncate(100);
            keep.extend(rest);
            leaf_edits = keep;
        }
        let mut groups = vec![];
        for g in GROUPS {
            for v in group_values(g) {
                groups.push(Edit::Group(g.to_string(), v));
            }
        }
        edits.extend(leaf_edits.iter().cloned());
        edits.extend(groups.iter().cloned());
        let mut cross = cross_blowup_queries();
        if !thorough {
            rng.shuffle(&mut cross);
            cross.truncate(40);
        }
        edits.extend(cross);
        edits.extend(crate::malformed::cross_spans());
        let n_combo = if thorough { 2000 } else { 60 };
        for _ in 0..n_combo {
            edits.push(Edit::Multi(vec![rng.pick(&groups).clone(), rng.pick(&leaf_edits).clone()]));
        }
        for _ in 0..n_combo / 4 {
            edits.push(Edit::Multi(vec![rng.pick(&groups).clone(), rng.pick(&groups).clone()]));
        }
        for e in edits {
            let my = worker.wants(idx);
            idx += 1;
            if !my {
                continue;
            }
            let label = edit_label(&e);
            let class = edit_class(&e);
            let d = json!({"proof": h.name, "edit": label});
            if worker.skips(&class) {
                rep.inc("skipped.class_with_established_worker_deaths");
                continue;
            }
            worker.begin(idx - 1, &class, &d.to_string());
            if let Some(mp) = apply_edit(&h.proof, &base, &e) {
                let text = serde_json::to_string(&mp).unwrap();
                let s_bytes = text.len() as u64;
                let n_felts = text.matches("\"0x").count() as u64;
                let ev_budget = 64 + 4 * n_felts;
                let w0 = resmon::window_start();
                let c0 = resmon::cpu_time_us();
                let run = trace::run_verify(&h.layout, &mp, sec, ev_budget);
                let cpu = resmon::cpu_time_us() - c0;
                let w1 = resmon::snap();
                let peak = (w1.peak.saturating_sub(w0.cur)) as u64;
                let total = w1.total - w0.total;
                rep.case(&d.to_string(), mp != h.proof);
                rep.inc(&format!("outcome.{}", match &run.verdict { Verdict::Accepted(..) => "accepted", Verdict::Rejected(_) => "error_value", Verdict::Panicked(p) if p.is_budget() => "event_budget", Verdict::Panicked(_) => "panic" }));
                rep.count("max_events_seen", 0);
                let e_seen = run.events.len() as u64;
                for (name, val) in [("max.events", e_seen), ("max.peak_heap_bytes", peak), ("max.total_alloc_bytes", total), ("max.cpu_us", cpu)] {
                    let cur = rep.counters.get(name).cloned().unwrap_or(0);
                    if val > cur {
                        rep.counters.insert(name.to_string(), val);
                    }
                }
                let m = json!({"case": d, "proof_bytes": s_bytes, "field_elements": n_felts, "events": e_seen, "event_budget": ev_budget, "peak_heap_bytes": peak, "total_alloc_bytes": total, "cpu_us": cpu, "honest_cpu_us": honest_cpu_us, "verdict": run.verdict.short()});
                if rep.samples.len() < 4 {
                    rep.sample(m.clone());
                }
                if run.budget_exceeded {
                    rep.violation(&format!("C17|event-budget|{class}"), &format!("transcript operations exceed 64 + 4 x field elements of the proof ({ev_budget}) [{class}]"), m.clone());
                }
                if peak > 64 * s_bytes + (64 << 20) {
                    rep.violation(&format!("C17|peak-heap|{class}"), &format!("peak heap {peak} bytes for a proof of {s_bytes} bytes [{class}]"), m.clone());
                }
                if total > 4096 * s_bytes + (256 << 20) {
                    rep.violation(&format!("C17|total-alloc|{class}"), &format!("{total} bytes allocated for a proof of {s_bytes} bytes [{class}]"), m.clone());
                }
                if cpu > cpu_limit_us {
                    rep.violation(&format!("C17|cpu|{class}"), &format!("{cpu} us CPU, more than 200x the honest original ({honest_cpu_us} us) [{class}]"), m.clone());
                }
            } else {
                rep.inc("edits_ill_typed");
            }
            worker.end(idx - 1, &rep);
        }
    }
    rep.counters.remove("max_events_seen");
    rep.note("every numeric leaf at {0,1,2^16,2^32,2^40,2^63,2^64-1,2^64,2^128,2^250,p-2,p-1} alone (quick: all config/public-input scalars + 500 sampled others), every consistent re-declaration group, and group x leaf / group x group combinations; budgets: events <= 64+4N, peak heap <= 64S+64MiB, total alloc <= 4096S+256MiB, CPU <= max(10s, 200x honest)");
    rep
}
