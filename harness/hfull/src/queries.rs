//! C10 — query indices are in range, strictly increasing and mapped to the right points.
use num_bigint::BigUint;
use serde_json::json;
use starknet_crypto::Felt;
use swiftness_air::domains::StarkDomains;
use swiftness_stark::queries::{generate_queries, queries_to_points};
use swiftness_transcript::transcript::Transcript;
use vcommon::guard::{catch, n_threads, par_run};
use vcommon::report::{Args, Report};
use vcommon::sponge::SpongeModel;
use vcommon::{big, bitrev, hex, pow_u128, root_of_unity, Rng};

pub fn model_queries(d: Felt, c: Felt, n: u64, bound: u128) -> (Vec<u128>, SpongeModel) {
    let mut m = SpongeModel::with_counter(d, c);
    let m128 = BigUint::from(1u8) << 128;
    let b = BigUint::from(bound);
    let mut v: Vec<u128> = (0..n).map(|_| u128::try_from((big(&m.squeeze()) % &m128) % &b).unwrap()).collect();
    v.sort();
    v.dedup();
    (v, m)
}

pub fn run(args: &Args) -> Report {
    let seed = args.u64("seed", 1);
    let thorough = args.thorough();
    let base = Rng::new(seed).fork("queries");
    let states: u64 = if thorough { 50 } else { 8 };
    let mut work: Vec<(u32, u64)> = vec![];
    for e in 1..=64u32 {
        let b: u128 = if e == 64 { 1u128 << 64 } else { 1u128 << e };
        let mut ns: Vec<u64> = vec![1, 2, 3, 7, 8, 48, 64, 200];
        for x in [b.saturating_sub(1), b, b + 1] {
            if x >= 1 && x <= 4096 {
                ns.push(x as u64);
            }
        }
        ns.sort();
        ns.dedup();
        for n in ns {
            work.push((e, n));
        }
    }
    let mut total = par_run(n_threads(), work.len() as u64, |i, rep| {
        let (e, n) = work[i as usize];
        let bound: u128 = 1u128 << e;
        let mut rng = base.fork(&format!("q{e}.{n}"));
        for s in 0..states {
            let d = rng.felt();
            let c = if s % 3 == 0 { Felt::ZERO } else { Felt::from(rng.below(1000)) };
            let (want, m_after) = model_queries(d, c, n, bound);
            let key = format!("{e}|{n}|{}|{}", hex(&d), hex(&c));
            rep.case(&key, true);
            rep.inc(&format!("domain_bits.{}", match e { 1..=6 => "1-6", 7..=16 => "7-16", 17..=40 => "17-40", _ => "41-64" }));
            let replay = json!({"digest": hex(&d), "counter": hex(&c), "n_queries": n, "log_domain": e});
            // under the transcript hook's event budget: a loop that keeps drawing challenges (e.g. "until
            // n distinct indices are held", which never ends when n exceeds the domain) is cut off
            swiftness_transcript::verif::start(4 * n + 64);
            let got = catch(|| {
                let mut t = Transcript::new_with_counter(d, c);
                let q = generate_queries(&mut t, Felt::from(n), Felt::from(bound));
                (q, *t.digest(), *t.counter())
            });
            let _ = swiftness_transcript::verif::take();
            let (q, dg, ct) = match got {
                Ok(x) => x,
                Err(p) if p.is_budget() => {
                    rep.violation("C10|challenge-count", &format!("generate_queries drew more than 4 x n_queries + 64 challenges for n_queries = {n} on a domain of 2^{e} points"), replay);
                    continue;
                }
                Err(p) => {
                    rep.violation("C10|generate-panicked", &format!("generate_queries panicked {}:{} {}", p.file, p.line, p.msg), replay);
                    continue;
                }
            };
            let qi: Vec<u128> = q.iter().map(|f| u128::try_from(big(f)).unwrap_or(u128::MAX)).collect();
            if qi.len() as u64 > n {
                rep.violation("C10|too-many", "more indices than the query count", replay.clone());
            }
            if qi.iter().any(|x| *x >= bound) {
                rep.violation("C10|out-of-range", "an index is outside [0, domain size)", replay.clone());
            }
            if qi.windows(2).any(|w| w[0] >= w[1]) {
                if qi.windows(2).any(|w| w[0] > w[1]) {
                    rep.violation("C10|not-sorted", "indices are not sorted", replay.clone());
                } else {
                    rep.violation("C10|repeated-index", "indices are not strictly increasing: a repeated index is returned when two samples collide", json!({"case": replay, "returned": qi.iter().map(|x| x.to_string()).collect::<Vec<_>>()}));
                }
                rep.inc("collisions_observed");
            } else if qi != want {
                rep.violation("C10|differs-from-model", "indices differ from sort(dedup((Poseidon(d, c+i) mod 2^128) mod B))", replay.clone());
            } else {
                rep.inc("sequence_equals_model");
                if want.len() as u64 != n {
                    rep.inc("collisions_observed");
                }
            }
            if dg != m_after.digest || ct != m_after.counter {
                rep.violation("C10|transcript-state", "drawing n queries must advance the counter by n and leave the digest unchanged", replay.clone());
            }
            // determinism
            if s == 0 {
                let again = catch(|| {
                    let mut t = Transcript::new_with_counter(d, c);
                    generate_queries(&mut t, Felt::from(n), Felt::from(bound))
                });
                if again.ok().as_ref() != Some(&q) {
                    rep.violation("C10|nondeterministic", "two runs from the same transcript state differ", replay.clone());
                }
            }
            // index -> point: 3 * w^bitrev(i)
            if s < 3 {
                // split e into trace/coset exponents at random
                let cbits = rng.range(0, e as u64) as u32;
                let doms = match catch(|| StarkDomains::new(Felt::from(e - cbits), Felt::from(cbits))) {
                    Ok(d) => d,
                    Err(p) => {
                        rep.violation("C10|domains-panicked", &format!("StarkDomains::new({}, {cbits}) panicked {}:{} {}", e - cbits, p.file, p.line, p.msg), json!({"log_domain": e, "log_n_cosets": cbits}));
                        continue;
                    }
                };
                if doms.eval_domain_size != Felt::from(bound) {
                    rep.violation("C10|wrong-domain-size", "the evaluation domain the indices are mapped into does not have 2^(t+c) points", json!({"log_domain": e, "log_n_cosets": cbits, "eval_domain_size": hex(&doms.eval_domain_size)}));
                    continue;
                }
                let w = root_of_unity(e);
                let mut idx: Vec<u128> = want.iter().take(6).cloned().collect();
                idx.extend([0u128, bound - 1, bound / 2]);
                idx.sort();
                idx.dedup();
                let qf: Vec<Felt> = idx.iter().map(|x| Felt::from(*x)).collect();
                let pts = catch(|| queries_to_points(&qf, &doms));
                match pts {
                    Ok(pts) => {
                        let exp: Vec<Felt> = idx.iter().map(|x| Felt::THREE * pow_u128(w, bitrev(*x, e))).collect();
                        rep.count("points_compared", exp.len() as u64);
                        if pts != exp {
                            rep.violation("C10|wrong-point", "queries_to_points differs from 3 * w^bitreverse(i)", json!({"log_domain": e, "indices": idx.iter().map(|x| x.to_string()).collect::<Vec<_>>()}));
                        }
                        if rep.samples.len() < 2 && e > 8 {
                            rep.sample(json!({"log_domain": e, "n_queries": n, "indices": want.iter().take(5).map(|x| x.to_string()).collect::<Vec<_>>(), "first_point": hex(&exp[0])}));
                        }
                    }
                    Err(p) => rep.violation("C10|points-panicked", &format!("queries_to_points panicked {}:{} {}", p.file, p.line, p.msg), json!({"log_domain": e})),
                }
            }
        }
    });
    total.note("domains 2^1..2^64 x query counts {1,2,3,7,8,48,64,200, B-1,B,B+1 when <= 4096} x transcript states; small domains make sample collisions certain");
    total
}
