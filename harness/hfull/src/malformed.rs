//! C18 — malformed proofs are reported as errors, not crashes (structural fault enumeration).
//! Also hosts the typed "consistent re-declaration" edits shared with C17.
use crate::layouts::build_stone;
use crate::mutate::{self, enumerate, get, path_class, path_str, Path, Worker};
use crate::tamper::honest_for_build;
use crate::trace::{self, Verdict};
use num_bigint::BigUint;
use serde_json::{json, Value};
use starknet_crypto::Felt;
use swiftness_air::domains::StarkDomains;
use swiftness_air::layout::{GenericLayoutTrait, LayoutTrait};
use swiftness_stark::types::StarkProof;
use vcommon::guard::{catch, PanicRecord};
use vcommon::report::{Args, Report};
use vcommon::{fu64, Rng};

/// signature of a panic site: repo-relative file + trimmed text of the panicking line + message
/// class; the line text is read from the working tree so unrelated line shifts do not change it.
pub fn panic_signature(p: &PanicRecord, repo: &str) -> String {
    if p.is_budget() {
        return "event-budget-exceeded".into();
    }
    if let Some(rel) = p.repo_file() {
        let text = std::fs::read_to_string(format!("{repo}/{rel}"))
            .ok()
            .and_then(|s| s.lines().nth(p.line.saturating_sub(1) as usize).map(|l| l.trim().to_string()))
            .unwrap_or_default();
        let text: String = text.chars().take(100).collect();
        format!("panic|{rel}|{text}|{}", p.msg_class())
    } else {
        format!("panic|<outside repo>|{}|{}", p.frame, p.msg_class())
    }
}

#[derive(Clone)]
pub enum Edit {
    Truncate(Path, usize),
    ExtendDup(Path),
    Rotate(Path),
    SwapArrays(Path, Path),
    Set(Path, String, BigUint),
    /// typed group edit, by name
    Group(String, u64),
    Multi(Vec<Edit>),
}

pub fn edit_label(e: &Edit) -> String {
    match e {
        Edit::Truncate(p, n) => format!("truncate {} to {n}", path_str(p)),
        Edit::ExtendDup(p) => format!("extend {} by a copy of its last element", path_str(p)),
        Edit::Rotate(p) => format!("rotate {} by one", path_str(p)),
        Edit::SwapArrays(a, b) => format!("swap {} with {}", path_str(a), path_str(b)),
        Edit::Set(p, k, _) => format!("set {} = {k}", path_str(p)),
        Edit::Group(n, v) => format!("group {n}({v})"),
        Edit::Multi(es) => es.iter().map(edit_label).collect::<Vec<_>>().join(" + "),
    }
}

pub fn edit_class(e: &Edit) -> String {
    match e {
        Edit::Truncate(p, n) => format!("truncate {} to {}", path_class(p), if *n <= 1 { n.to_string() } else { "len-1".into() }),
        Edit::ExtendDup(p) => format!("extend {}", path_class(p)),
        Edit::Rotate(p) => format!("rotate {}", path_class(p)),
        Edit::SwapArrays(a, _) => format!("swap {}", path_class(a)),
        Edit::Set(p, k, _) => format!("set {} = {k}", path_class(p)),
        Edit::Group(n, _) => format!("group {n}"),
        Edit::Multi(es) => format!("multi[{}]", es.len()),
    }
}

pub fn apply_json(v: &mut Value, e: &Edit) -> bool {
    match e {
        Edit::Truncate(p, n) => match mutate::get_mut(v, p).and_then(|x| x.as_array_mut()) {
            Some(a) => {
                a.truncate(*n);
                true
            }
            None => false,
        },
        Edit::ExtendDup(p) => match mutate::get_mut(v, p).and_then(|x| x.as_array_mut()) {
            Some(a) if !a.is_empty() => {
                let l = a.last().cloned().unwrap();
                a.push(l);
                true
            }
            _ => false,
        },
        Edit::Rotate(p) => match mutate::get_mut(v, p).and_then(|x| x.as_array_mut()) {
            Some(a) if a.len() >= 2 => {
                a.rotate_left(1);
                true
            }
            _ => false,
        },
        Edit::SwapArrays(a, b) => {
            let (Some(x), Some(y)) = (get(v, a).cloned(), get(v, b).cloned()) else { return false };
            *mutate::get_mut(v, a).unwrap() = y;
            *mutate::get_mut(v, b).unwrap() = x;
            true
        }
        Edit::Set(p, _, val) => mutate::set_leaf(v, p, val),
        Edit::Group(..) => false,
        Edit::Multi(es) => es.iter().all(|e| apply_json(v, e)),
    }
}

// ---------------------------------------------------------------------------------------------
// typed group edits: a hostile value plus the consistent re-declaration of dependent fields

fn set_heights(p: &mut StarkProof) {
    let t = p.config.log_trace_domain_size;
    let c = p.config.log_n_cosets;
    let h = t + c;
    p.config.traces.original.vector.height = h;
    p.config.traces.interaction.vector.height = h;
    p.config.composition.vector.height = h;
    p.config.fri.log_input_size = h;
    let mut cur = h;
    let steps = p.config.fri.fri_step_sizes.clone();
    for (i, l) in p.config.fri.inner_layers.iter_mut().enumerate() {
        if let Some(s) = steps.get(i + 1) {
            cur -= *s;
        }
        l.vector.height = cur;
    }
}

pub const GROUPS: [&str; 18] = [
    "n_queries", "blowup", "blowup_mod_p", "trace_size", "last_layer_bound", "n_layers", "n_friendly", "fri_input_only", "steps_all",
    "big_domain", "step1_shift", "zero_columns", "output_span", "program_span", "trailing_step", "drop_inner_layer", "page_header", "one_column",
];

pub fn group_values(name: &str) -> Vec<u64> {
    match name {
        "n_queries" => vec![0, 1, 47, 48, 49, 200, 1 << 12, 1 << 16, 1 << 20, 1 << 24, 1 << 32, 1 << 40, u64::MAX],
        "blowup" => vec![0, 1, 2, 3, 4, 5, 6, 7, 8, 9, 10, 11, 12, 13, 14, 15, 16, 17, 40, 60, 64, 100, 200, 1 << 16, 1 << 32, u64::MAX],
        "blowup_mod_p" => vec![1, 2, 3, 16],
        "trace_size" => vec![0, 1, 4, 10, 30, 59, 60, 64, 80, 100, 190, 250, 1 << 16, u64::MAX],
        "last_layer_bound" => vec![0, 1, 10, 15, 16, 20, 40, 64],
        "n_layers" => vec![0, 1, 2, 3, 14, 15, 16, 100, 1 << 20, 1 << 40, u64::MAX],
        "n_friendly" => vec![0, 1, 5, 1 << 20, u64::MAX],
        "fri_input_only" => vec![0, 1, 5, 40, 1 << 20],
        "steps_all" => vec![0, 1, 2, 4, 5, 16, 64, 1 << 40],
        // trace exponent with a 15-layer, all-steps-4 FRI re-declared around it (the only way to reach
        // evaluation domains beyond 2^64 through validation)
        "big_domain" => vec![56, 57, 60, 61, 62, 63, 64, 65, 66, 70, 71],
        // first inner step raised by v (1..=3), the second lowered by v, columns and heights following
        "step1_shift" => vec![1, 2, 3],
        // table v (0 original trace, 1 interaction trace, 2 composition, 3 first FRI layer) declared with
        // zero columns and its decommitted values emptied (0 x queries == 0 cells)
        "zero_columns" => vec![0, 1, 2, 3],
        // output segment of v cells / program of v cells (spans at the edge of the machine word)
        "output_span" => vec![0, 1, 5, 1 << 32, 1 << 63, u64::MAX - 1, u64::MAX],
        "program_span" => vec![0, 1 << 32, 1 << 63, u64::MAX - 5, u64::MAX - 1, u64::MAX],
        // one surplus trailing FRI step x (v<100: x = v; v>=100: x = p-(v-100)) with the last-layer bound
        // re-declared to lb - x, so that a sum over the WHOLE step vector still matches the trace size
        "trailing_step" => vec![1, 2, 101, 102, 104],
        // v in 1..=3: the last v inner-layer table configs dropped (steps and n_layers kept) with the
        // last-layer bound raised by the steps that lost their config; v = 11, 12: one more layer
        // declared (n_layers + 1, a step of v - 10 appended, bound lowered by it) without a table config
        "drop_inner_layer" => vec![1, 2, 3, 11, 12],
        // a continuous page header appended to the public input (no honest proof has one, so no
        // per-position edit can produce it): v % 10 selects the size (0, 1, the whole public-memory
        // column, column + 1, 2^60, 2^64, 2^128, p-1), v / 10 the product (1, 0, random-looking, p-1);
        // v >= 100: two headers. The product ratio is computed during the commitment phase, long before
        // verify_public_input refuses continuous pages
        // the composition table re-declared with ONE column (its column count is checked by no validation)
        // and each queried row replaced by that row's hash: a single-column row is used unhashed as the
        // leaf, so the decommitment still opens to the committed root and the values reach the code after it
        // (v = 0: values replaced; v = 1: only the declaration changed)
        "one_column" => vec![0, 1],
        "page_header" => vec![0, 1, 2, 3, 4, 5, 6, 7, 10, 11, 13, 14, 17, 20, 30, 34, 100, 104, 110, 117],
        _ => vec![],
    }
}

/// every in-range blow-up exponent combined with out-of-range query counts (and vice versa): two
/// cooperating fields that each look fine alone
pub fn cross_blowup_queries() -> Vec<Edit> {
    let mut out = vec![];
    for c in 1..=16u64 {
        for q in [49u64, 129, 200, 1 << 12, 1 << 16, 1 << 20, 1 << 24] {
            out.push(Edit::Multi(vec![Edit::Group("blowup".into(), c), Edit::Group("n_queries".into(), q)]));
        }
    }
    for q in [1u64, 16, 48] {
        for c in [0u64, 17, 64, 1 << 16] {
            out.push(Edit::Multi(vec![Edit::Group("blowup".into(), c), Edit::Group("n_queries".into(), q)]));
        }
    }
    out
}

/// program length and output length that overflow the machine word only together
pub fn cross_spans() -> Vec<Edit> {
    let mut out = vec![];
    for pl in [u64::MAX, u64::MAX - 1, u64::MAX - 5, 1u64 << 63] {
        for ol in [1u64, 5, 1 << 63, u64::MAX] {
            out.push(Edit::Multi(vec![Edit::Group("program_span".into(), pl), Edit::Group("output_span".into(), ol)]));
        }
    }
    out
}

pub fn apply_group(p: &mut StarkProof, name: &str, v: u64) {
    let f = Felt::from(v);
    match name {
        "n_queries" => p.config.n_queries = f,
        "blowup" => {
            p.config.log_n_cosets = f;
            set_heights(p);
        }
        "blowup_mod_p" => {
            // log_n_cosets = p - v: heights are consistent modulo the field
            p.config.log_n_cosets = Felt::ZERO - f;
            set_heights(p);
        }
        "trace_size" => {
            // trace size with the step count, the last-layer bound and all heights re-declared
            let sum = p.config.fri.fri_step_sizes.iter().fold(Felt::ZERO, |a, s| a + *s);
            p.config.log_trace_domain_size = f;
            p.public_input.log_n_steps = f - Felt::from(4u64);
            p.config.fri.log_last_layer_degree_bound = f - sum;
            set_heights(p);
        }
        "last_layer_bound" => {
            let sum = p.config.fri.fri_step_sizes.iter().fold(Felt::ZERO, |a, s| a + *s);
            p.config.fri.log_last_layer_degree_bound = f;
            p.config.log_trace_domain_size = sum + f;
            p.public_input.log_n_steps = sum + f - Felt::from(4u64);
            if v <= 16 {
                p.unsent_commitment.fri.last_layer_coefficients.resize(1usize << v, Felt::ZERO);
            }
            set_heights(p);
        }
        "n_layers" => {
            p.config.fri.n_layers = f;
            if v >= 1 && v <= 64 {
                let n = v as usize;
                let tc = p.config.fri.inner_layers.first().cloned();
                p.config.fri.fri_step_sizes.resize(n, Felt::ONE);
                if let Some(tc) = tc {
                    let mut tc1 = tc.clone();
                    tc1.n_columns = Felt::TWO;
                    p.config.fri.inner_layers.resize(n - 1, tc1);
                }
                p.unsent_commitment.fri.inner_layers.resize(n - 1, Felt::ONE);
                if let Some(w) = p.witness.fri_witness.layers.first().cloned() {
                    p.witness.fri_witness.layers.resize(n - 1, w);
                }
                let sum = p.config.fri.fri_step_sizes.iter().fold(Felt::ZERO, |a, s| a + *s);
                p.config.fri.log_last_layer_degree_bound = p.config.log_trace_domain_size - sum;
                set_heights(p);
            }
        }
        "n_friendly" => {
            p.config.n_verifier_friendly_commitment_layers = f;
            p.config.traces.original.vector.n_verifier_friendly_commitment_layers = f;
            p.config.traces.interaction.vector.n_verifier_friendly_commitment_layers = f;
            p.config.composition.vector.n_verifier_friendly_commitment_layers = f;
            for l in p.config.fri.inner_layers.iter_mut() {
                l.vector.n_verifier_friendly_commitment_layers = f;
            }
        }
        "fri_input_only" => {
            // FRI domain larger than the evaluation domain: all FRI sizes + v, trace domain untouched
            p.config.fri.log_input_size += f;
            p.config.fri.log_last_layer_degree_bound += f;
            for l in p.config.fri.inner_layers.iter_mut() {
                l.vector.height += f;
            }
        }
        "big_domain" => {
            let n = 15usize;
            p.config.fri.n_layers = Felt::from(n as u64);
            p.config.fri.fri_step_sizes = std::iter::once(Felt::ZERO).chain((1..n).map(|_| Felt::from(4u64))).collect();
            if let Some(tc) = p.config.fri.inner_layers.first().cloned() {
                let mut tc = tc;
                tc.n_columns = Felt::from(16u64);
                p.config.fri.inner_layers = vec![tc; n - 1];
            }
            p.unsent_commitment.fri.inner_layers.resize(n - 1, Felt::ONE);
            if let Some(w) = p.witness.fri_witness.layers.first().cloned() {
                p.witness.fri_witness.layers.resize(n - 1, w);
            }
            let lb = v.saturating_sub(56).min(15);
            p.config.fri.log_last_layer_degree_bound = Felt::from(lb);
            p.unsent_commitment.fri.last_layer_coefficients.resize(1usize << lb, Felt::ZERO);
            p.config.log_trace_domain_size = Felt::from(56 + lb);
            p.public_input.log_n_steps = Felt::from(56 + lb) - Felt::from(4u64);
            set_heights(p);
        }
        "step1_shift" => {
            if p.config.fri.fri_step_sizes.len() >= 3 {
                p.config.fri.fri_step_sizes[1] += f;
                p.config.fri.fri_step_sizes[2] -= f;
                for i in [0usize, 1] {
                    if let (Some(s), Some(l)) = (p.config.fri.fri_step_sizes.get(i + 1).and_then(|x| vcommon::fu64(x)), p.config.fri.inner_layers.get_mut(i)) {
                        l.n_columns = if s < 60 { Felt::from(1u64 << s) } else { Felt::ZERO };
                    }
                }
                set_heights(p);
            }
        }
        "zero_columns" => match v {
            0 => {
                p.config.traces.original.n_columns = Felt::ZERO;
                p.witness.traces_decommitment.original.values.clear();
            }
            1 => {
                p.config.traces.interaction.n_columns = Felt::ZERO;
                p.witness.traces_decommitment.interaction.values.clear();
            }
            2 => {
                p.config.composition.n_columns = Felt::ZERO;
                p.witness.composition_decommitment.values.clear();
            }
            _ => {
                if let Some(l) = p.config.fri.inner_layers.first_mut() {
                    l.n_columns = Felt::ZERO;
                }
                if let Some(w) = p.witness.fri_witness.layers.first_mut() {
                    w.leaves.clear();
                }
            }
        },
        "output_span" => {
            if let Some(sg) = p.public_input.segments.get_mut(2) {
                sg.stop_ptr = sg.begin_addr + f;
            }
        }
        "program_span" => {
            // program length = initial_ap - 2 - initial_pc
            let pc = p.public_input.segments.first().map(|s| s.begin_addr).unwrap_or(Felt::ONE);
            if let Some(sg) = p.public_input.segments.get_mut(1) {
                sg.begin_addr = pc + Felt::TWO + f;
            }
        }
        "trailing_step" => {
            let x = if v < 100 { Felt::from(v) } else { Felt::ZERO - Felt::from(v - 100) };
            p.config.fri.fri_step_sizes.push(x);
            p.config.fri.log_last_layer_degree_bound -= x;
            if let Some(lb) = vcommon::fu64(&p.config.fri.log_last_layer_degree_bound) {
                if lb <= 16 {
                    p.unsent_commitment.fri.last_layer_coefficients.resize(1usize << lb, Felt::ZERO);
                }
            }
        }
        "one_column" => {
            let width = fu64(&p.config.composition.n_columns).unwrap_or(2).clamp(1, 64) as usize;
            p.config.composition.n_columns = Felt::ONE;
            if v == 0 {
                let tp = vcommon::merkle::TreeParams {
                    height: fu64(&p.config.composition.vector.height).unwrap_or(20).min(120) as u32,
                    n_friendly: fu64(&p.config.n_verifier_friendly_commitment_layers).unwrap_or(u64::MAX),
                    hash: vcomp::build_hash(),
                };
                let r_inv = vcommon::inv(vcommon::montgomery_r());
                let rows: Vec<Felt> = p.witness.composition_decommitment.values.chunks(width).map(|row| vcommon::merkle::row_hash(&tp, row) * r_inv).collect();
                p.witness.composition_decommitment.values = rows;
            }
        }
        "page_header" => {
            let t = fu64(&p.config.log_trace_domain_size).unwrap_or(20).min(60);
            let column = (1u64 << t) / 8; // >= every layout's public-memory column (trace / PUBLIC_MEMORY_STEP)
            let size = match v % 10 {
                0 => Felt::ZERO,
                1 => Felt::ONE,
                2 => Felt::from(column.saturating_sub(p.public_input.main_page.len() as u64)),
                3 => Felt::from(column + 1),
                4 => Felt::from(1u64 << 60),
                5 => Felt::from(u64::MAX) + Felt::ONE,
                6 => Felt::from(u128::MAX) + Felt::ONE,
                _ => Felt::ZERO - Felt::ONE,
            };
            let prod = match (v / 10) % 10 {
                0 => Felt::ONE,
                1 => Felt::ZERO,
                2 => Felt::from(0x1234_5678_9abc_def1u64) * Felt::from(0xfedc_ba98_7654_3211u64),
                _ => Felt::ZERO - Felt::ONE,
            };
            let n = if v >= 100 { 2 } else { 1 };
            for i in 0..n {
                p.public_input.continuous_page_headers.push(swiftness_air::types::ContinuousPageHeader { start_address: Felt::from(1u64 << 40) + Felt::from(i as u64), size, hash: Felt::from(7u64), prod });
            }
        }
        "drop_inner_layer" => {
            if v <= 3 {
                let k = (v as usize).min(p.config.fri.inner_layers.len());
                let n = p.config.fri.fri_step_sizes.len();
                let lost = p.config.fri.fri_step_sizes[n.saturating_sub(k)..].iter().fold(Felt::ZERO, |a, s| a + *s);
                for _ in 0..k {
                    p.config.fri.inner_layers.pop();
                }
                p.config.fri.log_last_layer_degree_bound += lost;
            } else {
                let x = Felt::from(v - 10);
                p.config.fri.n_layers += Felt::ONE;
                p.config.fri.fri_step_sizes.push(x);
                p.config.fri.log_last_layer_degree_bound -= x;
            }
            if let Some(lb) = vcommon::fu64(&p.config.fri.log_last_layer_degree_bound) {
                if lb <= 16 {
                    p.unsent_commitment.fri.last_layer_coefficients.resize(1usize << lb, Felt::ZERO);
                }
            }
        }
        "steps_all" => {
            let n = p.config.fri.fri_step_sizes.len();
            for s in p.config.fri.fri_step_sizes.iter_mut().skip(1) {
                *s = f;
            }
            let cols = if v < 60 { Felt::from(1u64 << v) } else { Felt::ZERO };
            for l in p.config.fri.inner_layers.iter_mut() {
                l.n_columns = cols;
            }
            let sum = Felt::from(v) * Felt::from((n.max(1) - 1) as u64);
            p.config.fri.log_last_layer_degree_bound = p.config.log_trace_domain_size - sum;
            set_heights(p);
        }
        _ => {}
    }
}

/// apply an edit to an honest proof; None when the result is ill-typed / not applicable
pub fn apply_edit(honest: &StarkProof, base: &Value, e: &Edit) -> Option<StarkProof> {
    let mut json_edits: Vec<&Edit> = vec![];
    let mut groups: Vec<(&String, u64)> = vec![];
    fn split<'a>(e: &'a Edit, j: &mut Vec<&'a Edit>, g: &mut Vec<(&'a String, u64)>) {
        match e {
            Edit::Group(n, v) => g.push((n, *v)),
            Edit::Multi(es) => es.iter().for_each(|x| split(x, j, g)),
            x => j.push(x),
        }
    }
    split(e, &mut json_edits, &mut groups);
    let mut p: StarkProof = if json_edits.is_empty() {
        serde_json::from_value(base.clone()).ok()?
    } else {
        let mut v = base.clone();
        for je in json_edits {
            if !apply_json(&mut v, je) {
                return None;
            }
        }
        serde_json::from_value(v).ok()?
    };
    for (n, v) in groups {
        apply_group(&mut p, n, v);
    }
    let _ = honest;
    Some(p)
}

/// the edit list for one honest proof (deterministic for a seed)
pub fn edits_for(base: &Value, rng: &mut Rng, thorough: bool, budget_singles: usize) -> Vec<Edit> {
    let (leaves, arrays) = enumerate(base);
    let mut out: Vec<Edit> = vec![];
    for a in &arrays {
        let len = get(base, a).and_then(|x| x.as_array()).map(|x| x.len()).unwrap_or(0);
        let mut ns = vec![0usize, 1];
        if len >= 1 {
            ns.push(len - 1);
        }
        ns.sort();
        ns.dedup();
        for n in ns {
            if n < len {
                out.push(Edit::Truncate(a.clone(), n));
            }
        }
        out.push(Edit::ExtendDup(a.clone()));
        out.push(Edit::Rotate(a.clone()));
    }
    // arrays of the same element kind swapped
    let felt_arrays: Vec<&Path> = arrays.iter().filter(|a| get(base, a).and_then(|x| x.as_array()).map(|x| x.first().map(|e| e.is_string()).unwrap_or(false)).unwrap_or(false)).collect();
    let n_swaps = if thorough { 60 } else { 16 };
    for _ in 0..n_swaps {
        if felt_arrays.len() >= 2 {
            let a = *rng.pick(&felt_arrays);
            let b = *rng.pick(&felt_arrays);
            if a != b {
                out.push(Edit::SwapArrays(a.clone(), b.clone()));
            }
        }
    }
    // numeric leaves at extreme values: all config / public-input scalars, sampled others
    let mut singles: Vec<Edit> = vec![];
    let mut others: Vec<Edit> = vec![];
    for l in &leaves {
        let cur = get(base, l).unwrap();
        let is_hex = cur.is_string();
        let cls = path_class(l);
        let ps = path_str(l);
        let dyn_switch = ps.contains("dynamic_params.uses_") || (ps.contains("dynamic_params.") && ps.ends_with("row_ratio")) || ps.ends_with("cpu_component_step") || ps.contains("num_columns_");
        let structural = cls.starts_with("config") || (cls.starts_with("public_input") && !cls.contains("main_page") && !cls.contains("dynamic_params")) || cls.contains("nonce") || dyn_switch;
        let mut vals = mutate::extreme_values(is_hex, mutate::int_max_for(l));
        if structural {
            if let Some(orig) = mutate::leaf_big(cur) {
                vals.extend(mutate::relative_values(&orig, is_hex));
            }
        }
        for (k, v) in vals {
            let e = Edit::Set(l.clone(), k, v);
            if structural {
                singles.push(e);
            } else {
                others.push(e);
            }
        }
    }
    if !thorough {
        // quick runs every honest proof of the build: sample the scalar sweeps (dynamic-layout switches
        // - builtin flags and row ratios - at 0 / 1 are always kept: they pair up with each other)
        let (keep, mut rest): (Vec<Edit>, Vec<Edit>) = singles.into_iter().partition(|e| matches!(e, Edit::Set(p, k, _) if path_str(p).contains("dynamic_params.") && (k == "0" || k == "1")));
        rng.shuffle(&mut rest);
        rest.truncate(160);
        singles = keep;
        singles.extend(rest);
    }
    out.extend(singles);
    rng.shuffle(&mut others);
    others.truncate(budget_singles);
    out.extend(others);
    // group edits, alone and combined with one structural edit so deeper code is reached
    let mut groups: Vec<Edit> = vec![];
    for g in GROUPS {
        for v in group_values(g) {
            groups.push(Edit::Group(g.to_string(), v));
        }
    }
    out.extend(groups.clone());
    let mut cross = cross_blowup_queries();
    if !thorough {
        rng.shuffle(&mut cross);
        cross.truncate(40);
    }
    out.extend(cross);
    out.extend(cross_spans());
    let n_pairs = if thorough { 1500 } else { 60 };
    let pool: Vec<Edit> = out.clone();
    for _ in 0..n_pairs {
        let a = rng.pick(&pool).clone();
        let b = rng.pick(&pool).clone();
        out.push(Edit::Multi(vec![a, b]));
    }
    let n_triples = if thorough { 500 } else { 15 };
    for _ in 0..n_triples {
        out.push(Edit::Multi(vec![rng.pick(&pool).clone(), rng.pick(&pool).clone(), rng.pick(&groups).clone()]));
    }
    out
}

/// which precondition of fri_commit the malformed proof breaks, judged with the C11 predicate model
/// (not with the code under test)
fn fri_commit_shape<T>(layout: &str, p: &StarkProof) -> &'static str {
    let (n1, n2) = crate::with_layout!(layout, L, { (L::get_num_columns_first(&p.public_input).unwrap_or(1) as u64, L::get_num_columns_second(&p.public_input).unwrap_or(1) as u64) });
    let (exp, _) = crate::config_check::predicate(&p.config, &BigUint::from(0u8), n1, n2);
    if exp == crate::config_check::Expect::Reject {
        return "the configuration is one the statement excludes";
    }
    let nl = fu64(&p.config.fri.n_layers).unwrap_or(0) as usize;
    let lb = fu64(&p.config.fri.log_last_layer_degree_bound).unwrap_or(64);
    if p.unsent_commitment.fri.inner_layers.len() + 1 < nl {
        "fewer FRI layer commitments than the valid configuration's n_layers-1"
    } else if lb > 40 || p.unsent_commitment.fri.last_layer_coefficients.len() as u64 != (1u64 << lb) {
        "last layer length differs from 2^bound of the valid configuration"
    } else {
        "valid configuration, complete commitments"
    }
}

fn standalone<L: LayoutTrait + GenericLayoutTrait>(p: &StarkProof) -> Vec<(&'static str, Option<PanicRecord>)> {
    let mut out = vec![];
    let n1 = L::get_num_columns_first(&p.public_input).unwrap_or(1);
    let n2 = L::get_num_columns_second(&p.public_input).unwrap_or(1);
    let r = catch(|| p.config.validate(Felt::from(10u64), Felt::from(n1 as u64), Felt::from(n2 as u64)).is_ok());
    out.push(("StarkConfig::validate", r.err()));
    let r = catch(|| {
        let d = StarkDomains::new(p.config.log_trace_domain_size, p.config.log_n_cosets);
        L::validate_public_input(&p.public_input, &d).is_ok()
    });
    out.push(("validate_public_input", r.err()));
    let r = catch(|| L::verify_public_input(&p.public_input).is_ok());
    out.push(("verify_public_input", r.err()));
    out
}

pub fn run(args: &Args) -> Report {
    let seed = args.u64("seed", 1);
    let thorough = args.thorough();
    let repo = args.str("repo", "/repo");
    let mut worker = Worker::new(args);
    if args.u64("as_limit_gb", 8) > 0 {
        crate::resmon::set_address_space_limit(args.u64("as_limit_gb", 8) << 30);
    }
    crate::resmon::start_cpu_watchdog(args.u64("cpu_limit_s", 120) as f64);
    let mut rep = Report::new();
    let base_rng = Rng::new(seed).fork("malformed").fork(vcomp::build_hash().name()).fork(build_stone());
    let mut honest = honest_for_build(&repo);
    if honest.is_empty() {
        rep.note("no honest proof for this build");
        return rep;
    }
    let _ = &mut honest;
    let mut idx = 0u64;
    for h in &honest {
        let sec = h.proof.config.security_bits();
        let base = serde_json::to_value(&h.proof).unwrap();
        let mut rng = base_rng.fork(&h.name);
        let edits = edits_for(&base, &mut rng, thorough, if thorough { 4000 } else { 80 });
        for e in edits {
            let my = worker.wants(idx);
            idx += 1;
            if !my {
                continue;
            }
            let label = edit_label(&e);
            let d = json!({"proof": h.name, "edit": label});
            if worker.skips(&edit_class(&e)) {
                rep.inc("skipped.class_with_established_worker_deaths");
                continue;
            }
            worker.begin(idx - 1, &edit_class(&e), &d.to_string());
            if let Some(mp) = apply_edit(&h.proof, &base, &e) {
                let run = trace::run_verify(&h.layout, &mp, sec, 300_000);
                rep.case(&d.to_string(), mp != h.proof);
                rep.inc(&format!("outcome.{}", match &run.verdict { Verdict::Accepted(..) => "accepted", Verdict::Rejected(_) => "error_value", Verdict::Panicked(p) if p.is_budget() => "event_budget", Verdict::Panicked(_) => "panic" }));
                match &run.verdict {
                    Verdict::Panicked(p) if !p.is_budget() => {
                        let mut sig = panic_signature(p, &repo);
                        // panics inside fri_commit are recorded findings for two precise input shapes;
                        // the shape is part of the signature, so another way of reaching the same line
                        // (e.g. a configuration that validation should have refused) is a new violation
                        if sig.contains("crates/fri/src/fri.rs") {
                            sig = format!("{sig}|shape: {}", fri_commit_shape::<()>(&h.layout, &mp));
                        }
                        rep.violation(&format!("C18|verify|{sig}"), &format!("StarkProof::verify panicked at {}:{} ({}) on a well-typed malformed proof [{}]", p.file, p.line, p.msg.chars().take(100).collect::<String>(), edit_class(&e)), d.clone());
                    }
                    Verdict::Rejected(r) => {
                        let _ = r;
                        rep.inc(&format!("error_class.{}", run.verdict.class()));
                    }
                    _ => {}
                }
                if rep.samples.len() < 4 {
                    rep.sample(json!({"edit": label, "outcome": run.verdict.short()}));
                }
                // the three standalone entry points on the same malformed value
                let res = crate::with_layout!(h.layout.as_str(), L, { standalone::<L>(&mp) });
                for (name, pr) in res {
                    rep.inc(&format!("standalone.{name}"));
                    if let Some(p) = pr {
                        if !p.is_budget() {
                            let sig = panic_signature(&p, &repo);
                            rep.violation(&format!("C18|{name}|{sig}"), &format!("{name} panicked at {}:{} ({})", p.file, p.line, p.msg.chars().take(100).collect::<String>()), d.clone());
                        }
                    }
                }
            } else {
                rep.inc("edits_ill_typed");
            }
            worker.end(idx - 1, &rep);
        }
    }
    rep.note("edits: every vector truncated to 0 / 1 / len-1, extended, rotated; vectors swapped; every config/public-input number and sampled other numbers at extreme values; typed group edits (hostile value + consistent re-declaration); random pairs and triples of those; plus the three standalone entry points on each malformed value");
    rep
}
