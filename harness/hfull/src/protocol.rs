//! C08 (protocol part) — the transcript trace monitor over honest proofs, their "tolerated
//! malleability" variants (surplus trailing elements, alone and in matching pairs) and a sample of
//! single-position mutants: whatever the verdict, the absorbed messages must be exactly the
//! protocol's messages, in order, with the expected number of challenges between them.
use crate::layouts::build_stone;
use crate::mutate::{self, enumerate, get, path_str, Path};
use crate::tamper::honest_for_build;
use crate::trace;
use serde_json::{json, Value};
use swiftness_stark::types::StarkProof;
use vcommon::guard::{n_threads, par_run};
use vcommon::report::{Args, Report};
use vcommon::Rng;

fn append_dup(v: &mut Value, p: &Path) -> bool {
    match mutate::get_mut(v, p).and_then(|x| x.as_array_mut()) {
        Some(a) if !a.is_empty() => {
            let l = a.last().cloned().unwrap();
            a.push(l);
            true
        }
        _ => false,
    }
}

pub fn run(args: &Args) -> Report {
    let seed = args.u64("seed", 1);
    let thorough = args.thorough();
    let repo = args.str("repo", "/repo");
    let stone6 = build_stone() == "stone6";
    let base = Rng::new(seed).fork("protocol").fork(build_stone());
    let mut honest = honest_for_build(&repo);
    let mut total = Report::new();
    if honest.is_empty() {
        total.note("no honest proof for this build");
        return total;
    }
    if !thorough {
        let mut r = base.fork("pick");
        r.shuffle(&mut honest);
        honest.truncate(2);
    }
    struct Case {
        h: usize,
        label: String,
        value: Value,
    }
    let mut cases: Vec<Case> = vec![];
    for (hi, h) in honest.iter().enumerate() {
        let basev = serde_json::to_value(&h.proof).unwrap();
        let mut rng = base.fork(&h.name);
        cases.push(Case { h: hi, label: "unchanged".into(), value: basev.clone() });
        let (leaves, arrays) = enumerate(&basev);
        // surplus trailing element on every vector, alone
        for a in &arrays {
            let mut v = basev.clone();
            if append_dup(&mut v, a) {
                cases.push(Case { h: hi, label: format!("surplus element on {}", path_str(a)), value: v });
            }
        }
        // ... and on every pair of vectors (the FRI config / commitment / witness vectors in particular)
        let fri_arrays: Vec<&Path> = arrays.iter().filter(|a| path_str(a).contains("fri")).collect();
        for i in 0..fri_arrays.len() {
            for j in (i + 1)..fri_arrays.len() {
                let mut v = basev.clone();
                if append_dup(&mut v, fri_arrays[i]) && append_dup(&mut v, fri_arrays[j]) {
                    cases.push(Case { h: hi, label: format!("surplus elements on {} and {}", path_str(fri_arrays[i]), path_str(fri_arrays[j])), value: v });
                }
            }
        }
        // all FRI vectors at once
        {
            let mut v = basev.clone();
            let mut ok = true;
            for a in &fri_arrays {
                ok &= append_dup(&mut v, a);
            }
            if ok {
                cases.push(Case { h: hi, label: "surplus element on every FRI vector".into(), value: v });
            }
        }
        // a sample of single-position mutants
        let n_mut = if thorough { 400 } else { 60 };
        for _ in 0..n_mut {
            let l = rng.pick(&leaves);
            let cur = get(&basev, l).unwrap();
            let Some(orig) = mutate::leaf_big(cur) else { continue };
            let vals = mutate::tamper_values(&orig, cur.is_string(), mutate::int_max_for(l), &mut rng, 1);
            if let Some((k, val)) = vals.first() {
                let mut v = basev.clone();
                if mutate::set_leaf(&mut v, l, val) {
                    cases.push(Case { h: hi, label: format!("{} {k}", path_str(l)), value: v });
                }
            }
        }
    }
    let rep = par_run(n_threads(), cases.len() as u64, |i, rep| {
        let c = &cases[i as usize];
        let h = &honest[c.h];
        let Ok(p) = serde_json::from_value::<StarkProof>(c.value.clone()) else { return };
        let sec = h.proof.config.security_bits();
        let run = trace::run_verify(&h.layout, &p, sec, 200_000);
        let d = json!({"proof": h.name, "variant": c.label});
        rep.case(&d.to_string(), true);
        rep.count("hook_events", run.events.len() as u64);
        rep.inc(if run.verdict.accepted() { "runs.accepted" } else { "runs.not_accepted" });
        let family = if c.label.starts_with("surplus") { "surplus" } else if c.label == "unchanged" { "honest" } else { "mutant" };
        match trace::check_trace(&h.layout, &p, &run, stone6) {
            Ok(s) => {
                rep.inc(&format!("grammar_ok.{family}"));
                rep.inc(&format!("stage.{}", s.stage));
            }
            Err(e) => rep.violation(&format!("C08|trace|{family}-run-breaks-grammar"), &format!("{e} [{}]", c.label), d.clone()),
        }
        if rep.samples.len() < 3 && family == "surplus" {
            rep.sample(json!({"case": d, "verdict": run.verdict.short(), "events": run.events.len()}));
        }
    });
    total.merge(rep);
    total.note("every verification run is checked by the online trace monitor: unbroken sponge chain, seed = public-input digest, absorbed messages = exactly (original root, interaction root, composition root, the OODS vector as one message, n_layers-1 FRI roots, the last layer as one message, the nonce), expected number of challenges between them; rejected runs must be a prefix");
    total
}
