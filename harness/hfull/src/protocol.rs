//! C08 (protocol part) — the transcript trace monitor over honest proofs, their "tolerated
//! malleability" variants (surplus trailing elements, alone and in matching pairs) and a sample of
//! single-position mutants: whatever the verdict, the absorbed messages must be exactly the
//! protocol's messages, in order, with the expected number of challenges between them.
use crate::layouts::build_stone;
use crate::mutate::{self, enumerate, get, path_str, Path};
use crate::tamper::honest_for_build;
use crate::trace;
use serde_json::{json, Value};
use swiftness_stark::types::StarkProof;
use vcommon::guard::{n_threads, par_run};
use vcommon::report::{Args, Report};
use vcommon::Rng;

fn append_dup(v: &mut Value, p: &Path) -> bool {
    match mutate::get_mut(v, p).and_then(|x| x.as_array_mut()) {
        Some(a) if !a.is_empty() => {
            let l = a.last().cloned().unwrap();
            a.push(l);
            true
        }
        _ => false,
    }
}

pub fn run(args: &Args) -> Report {
    let seed = args.u64("seed", 1);
    let thorough = args.thorough();
    let repo = args.str("repo", "/repo");
    let stone6 = build_stone() == "stone6";
    let base = Rng::new(seed).fork("protocol").fork(build_stone());
    let mut honest = honest_for_build(&repo);
    let mut total = Report::new();
    if honest.is_empty() {
        total.note("no honest proof for this build");
        return total;
    }
    if !thorough {
        let mut r = base.fork("pick");
        r.shuffle(&mut honest);
        honest.truncate(2);
    }
    struct Case {
        h: usize,
        label: String,
        value: Value,
    }
    let mut cases: Vec<Case> = vec![];
    for (hi, h) in honest.iter().enumerate() {
        let basev = serde_json::to_value(&h.proof).unwrap();
        let mut rng = base.fork(&h.name);
        cases.push(Case { h: hi, label: "unchanged".into(), value: basev.clone() });
        let (leaves, arrays) = enumerate(&basev);
        // surplus trailing element on every vector, alone
        for a in &arrays {
            let mut v = basev.clone();
            if append_dup(&mut v, a) {
                cases.push(Case { h: hi, label: format!("surplus element on {}", path_str(a)), value: v });
            }
        }
        // ... and on every pair of vectors (the FRI config / commitment / witness vectors in particular)
        let fri_arrays: Vec<&Path> = arrays.iter().filter(|a| path_str(a).contains("fri")).collect();
        for i in 0..fri_arrays.len() {
            for j in (i + 1)..fri_arrays.len() {
                let mut v = basev.clone();
                if append_dup(&mut v, fri_arrays[i]) && append_dup(&mut v, fri_arrays[j]) {
                    cases.push(Case { h: hi, label: format!("surplus elements on {} and {}", path_str(fri_arrays[i]), path_str(fri_arrays[j])), value: v });
                }
            }
        }
        // all FRI vectors at once
        {
            let mut v = basev.clone();
            let mut ok = true;
            for a in &fri_arrays {
                ok &= append_dup(&mut v, a);
            }
            if ok {
                cases.push(Case { h: hi, label: "surplus element on every FRI vector".into(), value: v });
            }
        }
        // a sample of single-position mutants
        let n_mut = if thorough { 400 } else { 60 };
        for _ in 0..n_mut {
            let l = rng.pick(&leaves);
            let cur = get(&basev, l).unwrap();
            let Some(orig) = mutate::leaf_big(cur) else { continue };
            let vals = mutate::tamper_values(&orig, cur.is_string(), mutate::int_max_for(l), &mut rng, 1);
            if let Some((k, val)) = vals.first() {
                let mut v = basev.clone();
                if mutate::set_leaf(&mut v, l, val) {
                    cases.push(Case { h: hi, label: format!("{} {k}", path_str(l)), value: v });
                }
            }
        }
    }
    let rep = par_run(n_threads(), cases.len() as u64, |i, rep| {
        let c = &cases[i as usize];
        let h = &honest[c.h];
        let Ok(p) = serde_json::from_value::<StarkProof>(c.value.clone()) else { return };
        let sec = h.proof.config.security_bits();
        let run = trace::run_verify(&h.layout, &p, sec, 200_000);
        let d = json!({"proof": h.name, "variant": c.label});
        rep.case(&d.to_string(), true);
        rep.count("hook_events", run.events.len() as u64);
        rep.inc(if run.verdict.accepted() { "runs.accepted" } else { "runs.not_accepted" });
        let family = if c.label.starts_with("surplus") { "surplus" } else if c.label == "unchanged" { "honest" } else { "mutant" };
        match trace::check_trace(&h.layout, &p, &run, stone6) {
            Ok(s) => {
                rep.inc(&format!("grammar_ok.{family}"));
                rep.inc(&format!("stage.{}", s.stage));
            }
            Err(e) => rep.violation(&format!("C08|trace|{family}-run-breaks-grammar"), &format!("{e} [{}]", c.label), d.clone()),
        }
        if rep.samples.len() < 3 && family == "surplus" {
            rep.sample(json!({"case": d, "verdict": run.verdict.short(), "events": run.events.len()}));
        }
    });
    total.merge(rep);
    // ---- the query phase draws exactly n_queries challenges, whatever the samples are (small domains:
    // repeated samples are the rule here, while no shipped proof has one)
    {
        use starknet_crypto::Felt;
        use swiftness_stark::queries::generate_queries;
        use swiftness_transcript::transcript::Transcript;
        use swiftness_transcript::verif::{self as vh, Event};
        let mut rng = base.fork("query-phase");
        let mut rep = Report::new();
        for e in 1..=10u32 {
            for n in [1u64, 2, 5, 16, 48, 1 << e, (1 << e) + 3] {
                for _ in 0..(if thorough { 20 } else { 3 }) {
                    let d0 = rng.felt();
                    let c0 = rng.below(4);
                    let mut t = Transcript::new(d0);
                    for _ in 0..c0 {
                        t.random_felt_to_prover();
                    }
                    vh::start(4 * n + 64);
                    let out = vcommon::guard::catch(|| {
                        let q = generate_queries(&mut t, Felt::from(n), Felt::from(1u64 << e));
                        (q, *t.digest(), *t.counter())
                    });
                    let ev = vh::take();
                    let d = json!({"digest": vcommon::hex(&d0), "counter": c0, "n_queries": n, "log_domain": e});
                    rep.case(&d.to_string(), true);
                    let (q, dig, ctr) = match out {
                        Ok(x) => x,
                        Err(p) if p.is_budget() => {
                            rep.violation("C08|trace|query-phase-challenge-count", &format!("the query phase drew more than 4 x n_queries + 64 challenges for n_queries = {n} on a domain of 2^{e} points"), d);
                            continue;
                        }
                        Err(_) => continue,
                    };
                    rep.inc("query_phase.runs");
                    if (q.len() as u64) < n {
                        rep.inc("query_phase.runs_with_repeated_samples");
                    }
                    let squeezes = ev.iter().filter(|x| matches!(x, Event::Squeeze { .. })).count() as u64;
                    let others = ev.len() as u64 - squeezes;
                    if squeezes != n || others != 0 || dig != d0 || ctr != Felt::from(c0 + n) {
                        rep.violation("C08|trace|query-phase-challenge-count", &format!("the query phase drew {squeezes} challenges (and {others} other transcript operations) for n_queries = {n}; the transcript counter went from {c0} to {}", vcommon::hex(&ctr)), d);
                    }
                }
            }
        }
        total.merge(rep);
    }
    total.note("every verification run is checked by the online trace monitor: unbroken sponge chain, seed = public-input digest, absorbed messages = exactly (original root, interaction root, composition root, the OODS vector as one message, n_layers-1 FRI roots, the last layer as one message, the nonce), expected number of challenges between them; rejected runs must be a prefix");
    total
}
