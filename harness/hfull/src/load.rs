//! Proof sources: the shipped Stone proofs (through the repository's own parser + CLI transform)
//! and the in-tree fixture.
use std::path::{Path, PathBuf};
use swiftness::transform::TransformTo;
use swiftness_stark::types::StarkProof;
use vcommon::guard::catch;

#[derive(Clone, Debug)]
pub struct ProofFile {
    pub path: PathBuf,
    pub layout: String,
    pub stone: String,
    /// commitment hash named by the file name (stone6 default = keccak_160_lsb)
    pub hash: String,
    pub name: String,
}

pub fn shipped(repo: &str) -> Vec<ProofFile> {
    let mut out = vec![];
    let base = Path::new(repo).join("examples/proofs");
    let mut dirs: Vec<_> = std::fs::read_dir(&base).expect("examples/proofs").flatten().map(|e| e.path()).filter(|p| p.is_dir()).collect();
    dirs.sort();
    for d in dirs {
        let layout = d.file_name().unwrap().to_string_lossy().to_string();
        let mut files: Vec<_> = std::fs::read_dir(&d).unwrap().flatten().map(|e| e.path()).collect();
        files.sort();
        for f in files {
            let n = f.file_name().unwrap().to_string_lossy().to_string();
            if !n.ends_with("_example_proof.json") {
                continue;
            }
            let stone = if n.contains("stone5") { "stone5" } else { "stone6" };
            // the commitment hash is read from the file itself (the plain stone6 example is blake2s)
            let text = std::fs::read_to_string(&f).unwrap_or_default();
            let hash = if text.contains("\"blake256_masked248_lsb\"") {
                "blake2s_248_lsb"
            } else if text.contains("\"keccak256_masked160_lsb\"") {
                "keccak_160_lsb"
            } else {
                "unknown"
            };
            out.push(ProofFile { path: f.clone(), layout: layout.clone(), stone: stone.into(), hash: hash.into(), name: format!("{layout}/{n}") });
        }
    }
    out
}

/// the repository pipeline of cli/src/main.rs: parse -> transform_to
pub fn repo_pipeline(text: &str) -> Result<Result<StarkProof, String>, vcommon::guard::PanicRecord> {
    let t = text.to_string();
    catch(move || swiftness_proof_parser::parse(t).map(|p| p.transform_to()).map_err(|e| format!("{e:#}")))
}

pub fn load_via_repo(f: &ProofFile) -> Result<StarkProof, String> {
    let text = std::fs::read_to_string(&f.path).map_err(|e| e.to_string())?;
    match repo_pipeline(&text) {
        Ok(r) => r,
        Err(p) => Err(format!("parser panicked at {}:{} {}", p.file, p.line, p.msg)),
    }
}

pub fn matches_build(f: &ProofFile) -> bool {
    f.stone == crate::layouts::build_stone() && f.hash == vcomp::build_hash().name()
}

/// verify under a layout chosen at run time; Ok((program_hash, output_hash)) | Err(debug string)
pub fn verify_as(layout: &str, proof: &StarkProof, security_bits: starknet_crypto::Felt) -> Result<(starknet_crypto::Felt, starknet_crypto::Felt), String> {
    crate::with_layout!(layout, L, { proof.verify::<L>(security_bits).map_err(|e| format!("{e:?}")) })
}
