//! JSON-level mutation machinery over the serde form of the verifier's `StarkProof`, and the
//! crash-isolated worker protocol shared by C02 / C17 / C18.
use num_bigint::BigUint;
use serde_json::Value;
use std::io::Write;
use vcommon::report::{Args, Report};
use vcommon::{prime, Rng};

#[derive(Clone, Debug, PartialEq)]
pub enum Seg {
    Key(String),
    Idx(usize),
}

pub type Path = Vec<Seg>;

pub fn path_str(p: &Path) -> String {
    let mut s = String::new();
    for seg in p {
        match seg {
            Seg::Key(k) => {
                if !s.is_empty() {
                    s.push('.');
                }
                s.push_str(k);
            }
            Seg::Idx(i) => s.push_str(&format!("[{i}]")),
        }
    }
    s
}

/// path with indices collapsed: the "class" of a position
pub fn path_class(p: &Path) -> String {
    let mut s = String::new();
    for seg in p {
        match seg {
            Seg::Key(k) => {
                if !s.is_empty() {
                    s.push('.');
                }
                s.push_str(k);
            }
            Seg::Idx(_) => s.push_str("[*]"),
        }
    }
    // the 340 dynamic parameters form one class
    if let Some(i) = s.find("dynamic_params.") {
        s.truncate(i + "dynamic_params".len());
        s.push_str(".*");
    }
    s
}

pub fn get<'a>(v: &'a Value, p: &[Seg]) -> Option<&'a Value> {
    let mut cur = v;
    for seg in p {
        cur = match seg {
            Seg::Key(k) => cur.get(k)?,
            Seg::Idx(i) => cur.get(*i)?,
        };
    }
    Some(cur)
}

pub fn get_mut<'a>(v: &'a mut Value, p: &[Seg]) -> Option<&'a mut Value> {
    let mut cur = v;
    for seg in p {
        cur = match seg {
            Seg::Key(k) => cur.get_mut(k)?,
            Seg::Idx(i) => cur.get_mut(*i)?,
        };
    }
    Some(cur)
}

/// all scalar leaves and all arrays of a JSON tree, in deterministic (sorted-key) order
pub fn enumerate(v: &Value) -> (Vec<Path>, Vec<Path>) {
    fn walk(v: &Value, cur: &mut Path, leaves: &mut Vec<Path>, arrays: &mut Vec<Path>) {
        match v {
            Value::Object(m) => {
                let mut keys: Vec<&String> = m.keys().collect();
                keys.sort();
                for k in keys {
                    cur.push(Seg::Key(k.clone()));
                    walk(&m[k], cur, leaves, arrays);
                    cur.pop();
                }
            }
            Value::Array(a) => {
                arrays.push(cur.clone());
                for (i, x) in a.iter().enumerate() {
                    cur.push(Seg::Idx(i));
                    walk(x, cur, leaves, arrays);
                    cur.pop();
                }
            }
            Value::Null => {}
            _ => leaves.push(cur.clone()),
        }
    }
    let (mut l, mut a) = (vec![], vec![]);
    walk(v, &mut vec![], &mut l, &mut a);
    (l, a)
}

pub fn hex_of(b: &BigUint) -> Value {
    Value::String(format!("0x{:x}", b))
}

pub fn leaf_big(v: &Value) -> Option<BigUint> {
    match v {
        Value::String(s) => BigUint::parse_bytes(s.trim_start_matches("0x").as_bytes(), 16),
        Value::Number(n) => n.as_u64().map(BigUint::from),
        _ => None,
    }
}

/// the integer type a numeric (non-hex) leaf has in the verifier's types
pub fn int_max_for(p: &Path) -> u64 {
    let s = path_str(p);
    if s.ends_with("n_bits") {
        255
    } else {
        u64::MAX // nonce: u64, dynamic params: usize
    }
}

/// replace leaf by an integer value; hex leaves are reduced mod p, integer leaves must fit
pub fn set_leaf(root: &mut Value, p: &Path, val: &BigUint) -> bool {
    let max = int_max_for(p);
    let Some(slot) = get_mut(root, p) else { return false };
    match slot {
        Value::String(_) => {
            *slot = hex_of(&(val % prime()));
            true
        }
        Value::Number(_) => {
            if let Ok(x) = u64::try_from(val.clone()) {
                if x <= max {
                    *slot = Value::Number(x.into());
                    return true;
                }
            }
            false
        }
        _ => false,
    }
}

/// "different value" replacements for a tamper test: +1, low bit flipped, high bit flipped,
/// random, 0 / 1 – each guaranteed to differ from the original
pub fn tamper_values(orig: &BigUint, is_hex: bool, int_max: u64, rng: &mut Rng, k: usize) -> Vec<(String, BigUint)> {
    let p = prime();
    let mut out: Vec<(String, BigUint)> = vec![];
    let one = BigUint::from(1u8);
    if is_hex {
        out.push(("+1".into(), (orig + &one) % &p));
        out.push(("flip bit 0".into(), (orig ^ &one) % &p));
        out.push(("flip bit 200".into(), (orig ^ (&one << 200)) % &p));
        out.push(("flip bit 250".into(), (orig ^ (&one << 250)) % &p));
        out.push(("random".into(), vcommon::big(&rng.felt())));
        out.push(("0".into(), BigUint::from(0u8)));
        out.push(("1".into(), one.clone()));
        out.push(("-1".into(), (orig + &p - &one) % &p));
    } else {
        let o = u64::try_from(orig.clone()).unwrap_or(0);
        out.push(("+1".into(), BigUint::from(if o < int_max { o + 1 } else { o - 1 })));
        out.push(("-1".into(), BigUint::from(if o > 0 { o - 1 } else { 1 })));
        out.push(("flip bit 0".into(), BigUint::from(o ^ 1)));
        out.push(("random".into(), BigUint::from(if int_max == u64::MAX { rng.next() } else { rng.below(int_max + 1) })));
        out.push(("0".into(), BigUint::from(0u8)));
        out.push(("max".into(), BigUint::from(int_max)));
    }
    let mut seen = std::collections::BTreeSet::new();
    out.retain(|(_, v)| v != orig && seen.insert(v.clone()));
    // rotate so that different leaves exercise different replacement kinds first
    if !out.is_empty() {
        let r = rng.below(out.len() as u64) as usize;
        out.rotate_left(r);
    }
    out.truncate(k);
    out
}

/// like `tamper_values`, with the rotation chosen by the caller (consecutive leaves of one class walk
/// through all replacement kinds)
pub fn tamper_values_rot(orig: &BigUint, is_hex: bool, int_max: u64, rng: &mut Rng, k: usize, rot: usize) -> Vec<(String, BigUint)> {
    let mut sub = Rng::new(rng.next());
    let mut out = tamper_values(orig, is_hex, int_max, &mut sub, usize::MAX);
    // undo the random rotation: order by label for a stable base order
    out.sort_by(|a, b| a.0.cmp(&b.0));
    if !out.is_empty() {
        let r = rot % out.len();
        out.rotate_left(r);
    }
    out.truncate(k);
    out
}

/// extreme / adversarial numeric values (C17, C18)
pub fn extreme_values(is_hex: bool, int_max: u64) -> Vec<(String, BigUint)> {
    let one = BigUint::from(1u8);
    let p = prime();
    let mut v: Vec<(String, BigUint)> = vec![
        ("0".into(), BigUint::from(0u8)),
        ("1".into(), one.clone()),
        ("2^16".into(), &one << 16),
        ("2^24".into(), &one << 24),
        ("2^31".into(), &one << 31),
        ("2^32".into(), &one << 32),
        ("2^40".into(), &one << 40),
        ("2^63".into(), &one << 63),
        ("2^64-1".into(), (&one << 64) - &one),
    ];
    if is_hex {
        v.push(("2^64".into(), &one << 64));
        v.push(("2^128".into(), &one << 128));
        v.push(("2^250".into(), &one << 250));
        v.push(("p-2".into(), &p - BigUint::from(2u8)));
        v.push(("p-1".into(), &p - &one));
    } else {
        v.retain(|(_, x)| *x <= BigUint::from(int_max));
        v.push(("max".into(), BigUint::from(int_max)));
    }
    v
}

/// the original value with extra high limbs (C11, C17, C18): a conversion that keeps only the low
/// 32 / 64 / 128 bits reads the original back
pub fn relative_values(orig: &BigUint, is_hex: bool) -> Vec<(String, BigUint)> {
    let mut v = vec![];
    if is_hex {
        for (l, sh, m) in [("orig+2^32", 32u32, 1u8), ("orig+2^64", 64, 1), ("orig+2^128", 128, 1), ("orig+7*2^248", 248, 7)] {
            let x = orig + (BigUint::from(m) << sh);
            if x < prime() {
                v.push((l.to_string(), x));
            }
        }
        // exponent aliases: 2^x is unchanged when x moves by a multiple of the order of 2
        for m in [1u8, 3] {
            let x = orig + vcommon::ord2() * BigUint::from(m);
            if x < prime() {
                v.push((format!("orig+{m}*ord(2)"), x));
            }
        }
    }
    v
}

// ------------------------------------------------------------------------------------------------
/// Crash-isolated worker protocol: the parent (check.py) runs N workers; worker `shard` executes
/// the cases with index % nshards == shard and >= resume, logging BEGIN/END lines so that a
/// worker that dies (abort, allocation failure, CPU watchdog) is attributed to its in-flight case.
pub struct Worker {
    pub shard: u64,
    pub nshards: u64,
    pub resume: u64,
    progress: Option<std::fs::File>,
    out: String,
    since_checkpoint: u64,
    last_violations: usize,
    /// case classes for which the parent has already attributed two worker deaths: further cases of
    /// the class are not run (the violation is established; each death costs a full watchdog period)
    skip_classes: Vec<String>,
}

impl Worker {
    pub fn new(args: &Args) -> Worker {
        let progress = args.get("progress").map(|p| std::fs::OpenOptions::new().create(true).append(true).open(p).expect("progress file"));
        Worker {
            shard: args.u64("shard", 0),
            nshards: args.u64("nshards", 1).max(1),
            resume: args.u64("resume", 0),
            progress,
            out: args.str("out", "-"),
            since_checkpoint: 0,
            last_violations: 0,
            skip_classes: args.get("skip_classes").map(|x| x.split("||").filter(|c| !c.is_empty()).map(|c| c.to_string()).collect()).unwrap_or_default(),
        }
    }
    pub fn skips(&self, class: &str) -> bool {
        let c: String = class.chars().filter(|c| *c != '\n' && *c != '\t').take(160).collect();
        self.skip_classes.iter().any(|x| *x == c)
    }
    pub fn wants(&self, idx: u64) -> bool {
        idx % self.nshards == self.shard && idx >= self.resume
    }
    /// `class` identifies the kind of case (used as the signature of a worker death), `desc` the
    /// concrete case
    pub fn begin(&mut self, idx: u64, class: &str, desc: &str) {
        if let Some(f) = self.progress.as_mut() {
            let d: String = desc.chars().filter(|c| *c != '\n').take(300).collect();
            let c: String = class.chars().filter(|c| *c != '\n' && *c != '\t').take(160).collect();
            let _ = writeln!(f, "BEGIN {idx} {c}\t{d}");
            let _ = f.flush();
        }
        crate::resmon::case_begin(desc);
    }
    pub fn end(&mut self, idx: u64, rep: &Report) {
        crate::resmon::case_end();
        if let Some(f) = self.progress.as_mut() {
            let _ = writeln!(f, "END {idx}");
            let _ = f.flush();
        }
        self.since_checkpoint += 1;
        if self.out != "-" && (rep.violations.len() != self.last_violations || self.since_checkpoint >= 200) {
            rep.write(&format!("{}.partial", self.out));
            self.since_checkpoint = 0;
            self.last_violations = rep.violations.len();
        }
    }
}
