//! C01 (statement binding) — the AIR's boundary constraints tie the trace to the statement: the
//! composition evaluation must depend on every public-input field the Cairo AIR binds (initial and
//! final pc / ap, the first address of every builtin the layout instance uses, the range-check bounds,
//! every public-memory cell and the padding cell). A field the evaluation no longer depends on is
//! a statement the verifier would accept for a trace that contradicts it.
//! Monitor: per layout, random environments; each field is bumped by one and the real
//! `eval_composition_polynomial` is re-run; "bound" = the value changes in every environment.
use crate::pubinput::facts;
use crate::tamper::honest_for_build;
use serde_json::json;
use starknet_crypto::Felt;
use swiftness_air::domains::StarkDomains;
use swiftness_air::layout::{GenericLayoutTrait, LayoutTrait};
use swiftness_air::public_memory::PublicInput;
use swiftness_transcript::transcript::Transcript;
use vcommon::guard::catch;
use vcommon::report::{Args, Report};
use vcommon::Rng;

fn clone_pi(pi: &PublicInput) -> PublicInput {
    serde_json::from_value(serde_json::to_value(pi).unwrap()).unwrap()
}

fn probe<L: LayoutTrait + GenericLayoutTrait>(h: &crate::tamper::Honest, rng: &mut Rng, rep: &mut Report, n_env: usize) {
    let lay = h.layout.as_str();
    let cfg = &h.proof.config;
    let doms = StarkDomains::new(cfg.log_trace_domain_size, cfg.log_n_cosets);
    // dynamic layout: every builtin switched on, so that every builtin's first address is in play
    let pi0 = crate::coeffs::all_builtins_enabled(&h.proof.public_input).unwrap_or_else(|| clone_pi(&h.proof.public_input));
    let f = facts(lay, &pi0);
    // (label, must be bound, edit)
    let mut fields: Vec<(String, bool, Box<dyn Fn(&mut PublicInput)>)> = vec![];
    fields.push(("program.begin_addr (initial pc)".into(), true, Box::new(|p| p.segments[0].begin_addr += Felt::ONE)));
    fields.push(("program.stop_ptr (final pc)".into(), true, Box::new(|p| p.segments[0].stop_ptr += Felt::ONE)));
    fields.push(("execution.begin_addr (initial ap)".into(), true, Box::new(|p| p.segments[1].begin_addr += Felt::ONE)));
    fields.push(("execution.stop_ptr (final ap)".into(), true, Box::new(|p| p.segments[1].stop_ptr += Felt::ONE)));
    for b in &f.builtins {
        let seg = b.seg;
        let used = b.row_ratio.is_some();
        fields.push((format!("{}.begin_addr (first address of the builtin)", b.name), used, Box::new(move |p| p.segments[seg].begin_addr += Felt::ONE)));
        fields.push((format!("{}.stop_ptr", b.name), false, Box::new(move |p| p.segments[seg].stop_ptr += Felt::ONE)));
    }
    let oseg = f.output_seg;
    fields.push(("output.begin_addr".into(), false, Box::new(move |p| p.segments[oseg].begin_addr += Felt::ONE)));
    fields.push(("output.stop_ptr".into(), false, Box::new(move |p| p.segments[oseg].stop_ptr += Felt::ONE)));
    fields.push(("range_check_min".into(), true, Box::new(|p| p.range_check_min += Felt::ONE)));
    fields.push(("range_check_max".into(), true, Box::new(|p| p.range_check_max += Felt::ONE)));
    fields.push(("padding_addr".into(), true, Box::new(|p| p.padding_addr += Felt::ONE)));
    fields.push(("padding_value".into(), true, Box::new(|p| p.padding_value += Felt::ONE)));
    let n = pi0.main_page.len();
    for k in [0usize, n / 3, n / 2, n.saturating_sub(1)] {
        if k < n {
            fields.push((format!("main_page[{k}].address"), true, Box::new(move |p| p.main_page.0[k].address += Felt::ONE)));
            fields.push((format!("main_page[{k}].value"), true, Box::new(move |p| p.main_page.0[k].value += Felt::ONE)));
        }
    }
    let mut changed = vec![0usize; fields.len()];
    let mut envs = 0usize;
    for _ in 0..n_env {
        let mut tr = Transcript::new(rng.felt());
        let tc = L::traces_commit(&mut tr, &h.proof.unsent_commitment.traces, cfg.traces.clone());
        let mask: Vec<Felt> = (0..L::MASK_SIZE).map(|_| rng.felt()).collect();
        let coefs: Vec<Felt> = (0..L::N_CONSTRAINTS).map(|_| rng.felt()).collect();
        let z = rng.felt();
        let ev = |pi: &PublicInput| -> Option<Felt> {
            catch(|| L::eval_composition_polynomial(&tc.interaction_elements, pi, &mask, &coefs, &z, &doms.trace_domain_size, &doms.trace_generator).ok()).ok().flatten()
        };
        let Some(base) = ev(&pi0) else {
            rep.inconclusive(&format!("{lay}: composition evaluation failed on the honest statement"));
            return;
        };
        envs += 1;
        for (i, (_, _, edit)) in fields.iter().enumerate() {
            let mut p = clone_pi(&pi0);
            edit(&mut p);
            match ev(&p) {
                Some(v) if v == base => {}
                _ => changed[i] += 1, // a different value (or an error: the field is looked at)
            }
        }
    }
    for (i, (label, must, _)) in fields.iter().enumerate() {
        rep.case(&format!("{lay}|{label}"), true);
        let bound = changed[i] == envs;
        rep.inc(if bound { "fields_bound" } else { "fields_not_bound" });
        if *must {
            rep.inc("required_fields_probed");
            if !bound {
                rep.violation(
                    &format!("C01|statement-field-not-bound|{lay}|{}", label.split(' ').next().unwrap_or("")),
                    &format!("the composition evaluation of layout {lay} does not depend on {label} ({} of {envs} random environments): no boundary constraint ties the trace to this part of the statement", envs - changed[i]),
                    json!({"layout": lay, "field": label}),
                );
            }
        } else if bound {
            rep.inc(&format!("bound_although_not_required.{lay}.{}", label.split(' ').next().unwrap_or("")));
        }
    }
    // ---- the converse: a field the composition evaluation DEPENDS on but the Fiat-Shamir seed does NOT
    // absorb is a number the prover may pick after seeing the challenges. The only such field is the
    // `prod` of a continuous page header (it multiplies into the public-memory product; get_hash absorbs
    // start, size and hash only) - so a public input carrying a page header must be refused by the
    // layout's validate_public_input or verify_public_input.
    {
        use swiftness_air::types::ContinuousPageHeader;
        let hdr = |prod: Felt| ContinuousPageHeader { start_address: Felt::from(1u64 << 40), size: Felt::ZERO, hash: Felt::from(7u64), prod };
        let with = |prod: Felt| {
            let mut p = clone_pi(&h.proof.public_input);
            p.continuous_page_headers.push(hdr(prod));
            p
        };
        let (r1, r2) = (rng.felt(), rng.felt());
        let (p1, p2) = (with(r1), with(r2));
        let nf = cfg.n_verifier_friendly_commitment_layers;
        let same_digest = catch(|| p1.get_hash(nf) == p2.get_hash(nf)).unwrap_or(false);
        let mut tr = Transcript::new(rng.felt());
        let tc = L::traces_commit(&mut tr, &h.proof.unsent_commitment.traces, cfg.traces.clone());
        let mask: Vec<Felt> = (0..L::MASK_SIZE).map(|_| rng.felt()).collect();
        let coefs: Vec<Felt> = (0..L::N_CONSTRAINTS).map(|_| rng.felt()).collect();
        let z = rng.felt();
        let ev = |pi: &PublicInput| catch(|| L::eval_composition_polynomial(&tc.interaction_elements, pi, &mask, &coefs, &z, &doms.trace_domain_size, &doms.trace_generator).ok()).ok().flatten();
        let evaluation_differs = match (ev(&p1), ev(&p2)) {
            (Some(a), Some(b)) => a != b,
            _ => false,
        };
        rep.case(&format!("{lay}|page header prod"), true);
        rep.inc("unabsorbed_field_probes");
        if same_digest && evaluation_differs {
            rep.inc("page_header_prod.outside_digest_but_in_the_evaluation");
            let refused = catch(|| L::validate_public_input(&p1, &doms).is_err() || L::verify_public_input(&p1).is_err()).unwrap_or(true);
            if !refused {
                rep.violation(
                    &format!("C01|unabsorbed-statement-field-accepted|{lay}|continuous_page_headers.prod"),
                    &format!("layout {lay}: a public input with a continuous page header passes validate_public_input and verify_public_input although the header's `prod` enters the memory-product boundary value and is not absorbed into the Fiat-Shamir seed (the prover can choose it after the challenges)"),
                    json!({"layout": lay, "field": "continuous_page_headers[0].prod"}),
                );
            }
        } else {
            rep.inc("page_header_prod.absorbed_or_unused");
        }
    }
    if rep.samples.len() < 3 {
        let bound: Vec<&String> = fields.iter().enumerate().filter(|(i, _)| changed[*i] == envs).map(|(_, f)| &f.0).collect();
        rep.sample(json!({"layout": lay, "environments": envs, "fields_probed": fields.len(), "bound": bound}));
    }
}

pub fn run(args: &Args) -> Report {
    let seed = args.u64("seed", 1);
    let thorough = args.thorough();
    let repo = args.str("repo", "/repo");
    let base = Rng::new(seed).fork("stmtbind");
    let honest = honest_for_build(&repo);
    let mut total = Report::new();
    let mut done = std::collections::BTreeSet::new();
    for h in &honest {
        if !done.insert(h.layout.clone()) {
            continue;
        }
        let mut rng = base.fork(&h.layout);
        let mut rep = Report::new();
        crate::with_layout!(h.layout.as_str(), L, { probe::<L>(h, &mut rng, &mut rep, if thorough { 6 } else { 2 }) });
        total.merge(rep);
        total.inc("layouts_probed");
    }
    total.note("per layout: every segment bound, the range-check bounds, the padding cell and sampled main-page cells bumped by one; required = initial/final pc and ap, first address of every builtin of the layout (dynamic: all switched on), range-check bounds, padding cell, main-page cells");
    total
}
