//! C12 — evaluation / trace domain generators have exactly the right order (exhaustive).
use num_bigint::BigUint;
use serde_json::json;
use starknet_crypto::Felt;
use swiftness_air::domains::StarkDomains;
use vcommon::guard::{catch, n_threads, par_run};
use vcommon::report::{Args, Report};
use vcommon::{felt_from_big, hex, pow_big};

fn two_pow(e: u32) -> BigUint {
    BigUint::from(1u8) << e
}

pub fn run(_args: &Args) -> Report {
    let mut pairs = vec![];
    for t in 0..=192u32 {
        for c in 0..=(192 - t) {
            pairs.push((t, c));
        }
    }
    let minus_one = Felt::ZERO - Felt::ONE;
    let mut total = par_run(n_threads(), pairs.len() as u64, |i, rep| {
        let (t, c) = pairs[i as usize];
        let e = t + c;
        rep.case(&format!("{t},{c}"), true);
        // the result must not depend on earlier calls: precede it by calls with the same sum split
        // differently and with the same t / same c (a stale cache keyed on part of the input shows)
        if c >= 1 {
            let _ = catch(|| StarkDomains::new(Felt::from(t + 1), Felt::from(c - 1)));
        } else if t >= 1 {
            let _ = catch(|| StarkDomains::new(Felt::from(t - 1), Felt::from(c + 1)));
        }
        let d = match catch(|| StarkDomains::new(Felt::from(t), Felt::from(c))) {
            Ok(d) => d,
            Err(p) => {
                rep.violation("C12|panic", &format!("StarkDomains::new({t},{c}) panicked: {}:{} {}", p.file, p.line, p.msg), json!({"log_trace_domain_size": t, "log_n_cosets": c}));
                return;
            }
        };
        let replay = json!({"log_trace_domain_size": t, "log_n_cosets": c, "eval_generator": hex(&d.eval_generator), "trace_generator": hex(&d.trace_generator)});
        let mut bad = |sig: &str, what: &str| rep.violation(&format!("C12|{sig}"), &format!("(t={t}, c={c}): {what}"), replay.clone());
        if d.eval_domain_size != felt_from_big(&two_pow(e)) || d.log_eval_domain_size != Felt::from(e) {
            bad("eval-size", "evaluation domain size is not 2^(t+c)");
        }
        if d.trace_domain_size != felt_from_big(&two_pow(t)) || d.log_trace_domain_size != Felt::from(t) {
            bad("trace-size", "trace domain size is not 2^t");
        }
        // order exactly 2^e: g^(2^e) == 1 and (e >= 1) g^(2^(e-1)) == -1
        if pow_big(d.eval_generator, &two_pow(e)) != Felt::ONE {
            bad("eval-order", "eval_generator^(2^(t+c)) != 1");
        }
        if e >= 1 && pow_big(d.eval_generator, &two_pow(e - 1)) != minus_one {
            bad("eval-order", "eval_generator^(2^(t+c-1)) != -1 (order is not exactly 2^(t+c))");
        }
        if e == 0 && d.eval_generator != Felt::ONE {
            bad("eval-order", "generator of the trivial domain is not 1");
        }
        if pow_big(d.trace_generator, &two_pow(t)) != Felt::ONE {
            bad("trace-order", "trace_generator^(2^t) != 1");
        }
        if t >= 1 && pow_big(d.trace_generator, &two_pow(t - 1)) != minus_one {
            bad("trace-order", "trace_generator^(2^(t-1)) != -1 (order is not exactly 2^t)");
        }
        if t == 0 && d.trace_generator != Felt::ONE {
            bad("trace-order", "generator of the trivial trace domain is not 1");
        }
        if d.trace_generator != pow_big(d.eval_generator, &two_pow(c)) {
            bad("relation", "trace_generator != eval_generator^(2^c)");
        }
        // and a repeated call gives the same answer
        if let Ok(d2) = catch(|| StarkDomains::new(Felt::from(t), Felt::from(c))) {
            if d2 != d {
                bad("nondeterministic", "two calls with the same (t, c) differ");
            }
        }
    });
    total.count("pairs", pairs.len() as u64);
    total.sample(json!({"log_trace_domain_size": 18, "log_n_cosets": 4, "checked": ["sizes", "g^(2^e)=1", "g^(2^(e-1))=-1", "trace_gen = eval_gen^(2^c)"]}));
    total.note("all (t, c) with t + c in 0..=192 enumerated");
    total
}
