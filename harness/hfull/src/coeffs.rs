//! C16 — constraints and DEEP terms get independent random coefficients (algebraic probing).
use crate::tamper::{honest_for_build, Honest};
use serde_json::json;
use starknet_crypto::Felt;
use swiftness_air::domains::StarkDomains;
use swiftness_air::layout::{GenericLayoutTrait, LayoutTrait};
use swiftness_air::public_memory::PublicInput;
use swiftness_stark::commit::stark_commit;
use swiftness_transcript::transcript::Transcript;
use swiftness_transcript::verif::{self, Event};
use vcommon::guard::{catch, n_threads};
use vcommon::report::{Args, Report};
use vcommon::{hex, inv, Rng};

fn unit(n: usize, i: usize) -> Vec<Felt> {
    let mut v = vec![Felt::ZERO; n];
    v[i] = Felt::ONE;
    v
}

/// run f over 0..n in parallel
fn par_map<T: Send, F: Fn(usize) -> T + Sync>(n: usize, f: F) -> Vec<T> {
    let threads = n_threads().max(1);
    let mut out: Vec<Option<T>> = (0..n).map(|_| None).collect();
    let chunk = (n + threads - 1) / threads.max(1);
    std::thread::scope(|s| {
        for (ci, slice) in out.chunks_mut(chunk.max(1)).enumerate() {
            let f = &f;
            std::thread::Builder::new().stack_size(256 << 20).spawn_scoped(s, move || {
                for (k, slot) in slice.iter_mut().enumerate() {
                    *slot = Some(f(ci * chunk + k));
                }
            }).unwrap();
        }
    });
    out.into_iter().map(|x| x.unwrap()).collect()
}

pub fn all_builtins_enabled(pi: &PublicInput) -> Option<PublicInput> {
    let d = pi.dynamic_params.as_ref()?;
    let mut v = serde_json::to_value(d).unwrap();
    for (k, x) in v.as_object_mut().unwrap().iter_mut() {
        if k.starts_with("uses_") {
            *x = 1.into();
        } else if k.ends_with("row_ratio") && x.as_u64() == Some(0) {
            *x = 2048.into();
        }
    }
    let mut p2: PublicInput = serde_json::from_value(serde_json::to_value(pi).unwrap()).unwrap();
    p2.dynamic_params = Some(serde_json::from_value(v).unwrap());
    Some(p2)
}

/// dynamic layout: the shipped parameters with exactly the builtin flags in `on` enabled
fn with_builtins(pi: &PublicInput, on: &[&str]) -> Option<PublicInput> {
    let d = pi.dynamic_params.as_ref()?;
    let mut v = serde_json::to_value(d).unwrap();
    for (k, x) in v.as_object_mut().unwrap().iter_mut() {
        if k.starts_with("uses_") {
            *x = (if on.iter().any(|b| k == &format!("uses_{b}_builtin")) { 1 } else { 0 }).into();
        } else if k.ends_with("row_ratio") && x.as_u64() == Some(0) {
            *x = 2048.into();
        }
    }
    let mut p2: PublicInput = serde_json::from_value(serde_json::to_value(pi).unwrap()).unwrap();
    p2.dynamic_params = Some(serde_json::from_value(v).unwrap());
    Some(p2)
}

/// the builtin's row ratio set to the trace length (one instance)
fn with_row_ratio(pi: &PublicInput, b: &str, trace_len: &Felt) -> Option<PublicInput> {
    let d = pi.dynamic_params.as_ref()?;
    let mut v = serde_json::to_value(d).unwrap();
    let tl = vcommon::fu64(trace_len)?;
    let key = v.as_object().unwrap().keys().find(|k| k.starts_with(b) && k.ends_with("row_ratio") && (b != "range_check" || !k.contains("96")))?.clone();
    v[&key] = tl.into();
    let mut p2: PublicInput = serde_json::from_value(serde_json::to_value(pi).unwrap()).unwrap();
    p2.dynamic_params = Some(serde_json::from_value(v).ok()?);
    Some(p2)
}

pub const DYNAMIC_BUILTINS: [&str; 10] = ["add_mod", "bitwise", "ec_op", "ecdsa", "keccak", "mul_mod", "pedersen", "poseidon", "range_check96", "range_check"];

fn probe_layout<L: LayoutTrait + GenericLayoutTrait>(h: &Honest, rng: &mut Rng, rep: &mut Report, n_env: usize)
where
    L::InteractionElements: Sync,
{
    let cfg = &h.proof.config;
    let doms = StarkDomains::new(cfg.log_trace_domain_size, cfg.log_n_cosets);
    let nc = L::N_CONSTRAINTS;
    let nm = L::MASK_SIZE + L::CONSTRAINT_DEGREE;
    let lay = h.layout.as_str();
    let mut nonzero_seen = vec![false; nc];
    let mut nonzero_seen_enabled = vec![false; nc];
    let pi_enabled = all_builtins_enabled(&h.proof.public_input);
    for env in 0..n_env {
        let mut tr = Transcript::new(rng.felt());
        let tc = L::traces_commit(&mut tr, &h.proof.unsent_commitment.traces, cfg.traces.clone());
        let mask: Vec<Felt> = (0..L::MASK_SIZE).map(|_| rng.felt()).collect();
        let z = rng.felt();
        let replay = json!({"layout": lay, "environment": env, "oods_point": hex(&z)});
        let f = |pi: &PublicInput, c: &[Felt]| -> Result<Felt, String> {
            catch(|| L::eval_composition_polynomial(&tc.interaction_elements, pi, &mask, c, &z, &doms.trace_domain_size, &doms.trace_generator).map_err(|e| format!("{e:?}")))
                .map_err(|p| format!("panic {}:{} {}", p.file, p.line, p.msg))
                .and_then(|r| r)
        };
        let pi = &h.proof.public_input;
        let c1: Vec<Felt> = (0..nc).map(|_| rng.felt()).collect();
        let c2: Vec<Felt> = (0..nc).map(|_| rng.felt()).collect();
        let lam = rng.felt();
        let (f1, f2) = match (f(pi, &c1), f(pi, &c2)) {
            (Ok(a), Ok(b)) => (a, b),
            (a, b) => {
                rep.inconclusive(&format!("{lay}: composition evaluation failed in a random environment: {a:?} {b:?}"));
                return;
            }
        };
        let csum: Vec<Felt> = c1.iter().zip(c2.iter()).map(|(a, b)| *a + *b).collect();
        let cl: Vec<Felt> = c1.iter().map(|a| *a * lam).collect();
        rep.case(&format!("{lay}|comp|{env}|{}", hex(&z)), true);
        if f(pi, &csum) != Ok(f1 + f2) {
            rep.violation(&format!("C16|composition-not-additive|{lay}"), "eval_composition_polynomial(c1+c2) != f(c1)+f(c2)", replay.clone());
        }
        if f(pi, &cl) != Ok(f1 * lam) {
            rep.violation(&format!("C16|composition-not-homogeneous|{lay}"), "eval_composition_polynomial(l*c) != l*f(c)", replay.clone());
        }
        rep.inc("composition.linearity_checks");
        // unit vectors: f(c) = sum c_i f(e_i), and every position contributes
        let units: Vec<Result<Felt, String>> = par_map(nc, |i| f(pi, &unit(nc, i)));
        let mut acc = Felt::ZERO;
        for (i, u) in units.iter().enumerate() {
            rep.case(&format!("{lay}|comp-unit|{env}|{i}"), true);
            match u {
                Ok(v) => {
                    acc += c1[i] * *v;
                    if *v != Felt::ZERO {
                        nonzero_seen[i] = true;
                    }
                }
                Err(e) => rep.inconclusive(&format!("{lay}: f(e_{i}) failed: {e}")),
            }
        }
        rep.count("composition.unit_evaluations", nc as u64);
        if acc != f1 {
            rep.violation(&format!("C16|composition-not-sum-of-units|{lay}"), "f(c) != sum_i c_i f(e_i): some coefficient is used more than once, with a factor, or not at all", replay.clone());
        }
        if pi_enabled.is_some() && env == 0 {
            // component membership, measured: the positions that become active when exactly one
            // builtin is enabled. Every builtin must activate at least one position of its own, the
            // sets must be pairwise disjoint and, with the core, cover every position.
            let core = with_builtins(pi, &[]).unwrap();
            let core_units: Vec<bool> = par_map(nc, |i| f(&core, &unit(nc, i)).map(|v| v != Felt::ZERO).unwrap_or(false));
            let mut owner: Vec<Option<&str>> = vec![None; nc];
            for b in DYNAMIC_BUILTINS {
                let only = with_builtins(pi, &[b]).unwrap();
                let act: Vec<bool> = par_map(nc, |i| f(&only, &unit(nc, i)).map(|v| v != Felt::ZERO).unwrap_or(false));
                let mut own = 0;
                for i in 0..nc {
                    if core_units[i] && !act[i] {
                        rep.violation(&format!("C16|dynamic-core-position-lost|{lay}"), &format!("core position {i} vanishes when builtin {b} is enabled"), json!({"layout": lay, "position": i, "builtin": b}));
                    }
                    if act[i] && !core_units[i] {
                        own += 1;
                        if let Some(o) = owner[i] {
                            rep.violation(&format!("C16|dynamic-position-shared|{lay}"), &format!("position {i} is activated by builtin {o} and by builtin {b}"), json!({"layout": lay, "position": i}));
                        }
                        owner[i] = Some(b);
                    }
                }
                rep.count(&format!("dynamic.positions_of.{b}"), own);
                rep.case(&format!("{lay}|builtin-alone|{b}"), true);
                // the same builtin with exactly ONE instance (row ratio == trace length, a legal shape):
                // the very same positions must be active
                if let Some(single) = with_row_ratio(&only, b, &doms.trace_domain_size).filter(|sp| {
                    // only where the evaluation itself accepts the shape (keccak, e.g., needs more rows)
                    let ok = f(sp, &unit(nc, 0)).is_ok();
                    if !ok {
                        rep.inc(&format!("dynamic.single_instance_not_a_legal_shape.{b}"));
                    }
                    ok
                }) {
                    let act1: Vec<bool> = par_map(nc, |i| f(&single, &unit(nc, i)).map(|v| v != Felt::ZERO).unwrap_or(false));
                    let lost_pos: Vec<usize> = (0..nc).filter(|i| act[*i] && !act1[*i]).collect();
                    let lost = lost_pos.len();
                    rep.case(&format!("{lay}|builtin-single-instance|{b}"), true);
                    rep.inc("dynamic.single_instance_variants");
                    if lost > 0 {
                        rep.violation(&format!("C16|dynamic-builtin-single-instance|{lay}|{b}"), &format!("with exactly one instance of builtin {b} (row ratio == trace length) {lost} of its coefficient positions contribute nothing"), json!({"layout": lay, "builtin": b, "positions_lost": lost, "first_positions": lost_pos.iter().take(12).collect::<Vec<_>>()}));
                    }
                }
                if own == 0 {
                    rep.violation(&format!("C16|dynamic-builtin-contributes-nothing|{lay}|{b}"), &format!("enabling builtin {b} alone activates no constraint coefficient position: its constraints are dropped (or gated by another builtin's flag)"), json!({"layout": lay, "builtin": b}));
                }
            }
            let unowned = (0..nc).filter(|i| !core_units[*i] && owner[*i].is_none()).count();
            rep.count("dynamic.core_positions", core_units.iter().filter(|x| **x).count() as u64);
            if unowned > 0 {
                rep.violation(&format!("C16|dynamic-position-unowned|{lay}"), &format!("{unowned} positions are neither core nor activated by any single builtin"), json!({"layout": lay}));
            }
        }
        if let Some(pe) = &pi_enabled {
            let units_e: Vec<Result<Felt, String>> = par_map(nc, |i| f(pe, &unit(nc, i)));
            for (i, u) in units_e.iter().enumerate() {
                if let Ok(v) = u {
                    if *v != Felt::ZERO {
                        nonzero_seen_enabled[i] = true;
                    }
                }
            }
            // a position that is active in the shipped instance must also be active with every builtin on
            rep.count("composition.unit_evaluations_all_builtins", nc as u64);
        }
        // ---- DEEP / OODS evaluation
        let ncol = L::get_num_columns_first(pi).unwrap() + L::get_num_columns_second(pi).unwrap() + L::CONSTRAINT_DEGREE;
        let cv: Vec<Felt> = (0..ncol).map(|_| rng.felt()).collect();
        let ov: Vec<Felt> = (0..nm).map(|_| rng.felt()).collect();
        let x = rng.felt();
        let g = |cvv: &[Felt], ovv: &[Felt], c: &[Felt]| -> Result<Felt, String> {
            catch(|| L::eval_oods_polynomial(pi, cvv, ovv, c, &x, &z, &doms.trace_generator).map_err(|e| format!("{e:?}")))
                .map_err(|p| format!("panic {}:{} {}", p.file, p.line, p.msg))
                .and_then(|r| r)
        };
        let d1: Vec<Felt> = (0..nm).map(|_| rng.felt()).collect();
        let d2: Vec<Felt> = (0..nm).map(|_| rng.felt()).collect();
        let dsum: Vec<Felt> = d1.iter().zip(d2.iter()).map(|(a, b)| *a + *b).collect();
        let (g1, g2) = match (g(&cv, &ov, &d1), g(&cv, &ov, &d2)) {
            (Ok(a), Ok(b)) => (a, b),
            _ => {
                rep.inconclusive(&format!("{lay}: DEEP evaluation failed in a random environment"));
                return;
            }
        };
        rep.case(&format!("{lay}|deep|{env}|{}", hex(&x)), true);
        if g(&cv, &ov, &dsum) != Ok(g1 + g2) {
            rep.violation(&format!("C16|deep-not-additive|{lay}"), "eval_oods_polynomial(c1+c2) != g(c1)+g(c2)", replay.clone());
        }
        let dl: Vec<Felt> = d1.iter().map(|a| *a * lam).collect();
        if g(&cv, &ov, &dl) != Ok(g1 * lam) {
            rep.violation(&format!("C16|deep-not-homogeneous|{lay}"), "eval_oods_polynomial(l*c) != l*g(c)", replay.clone());
        }
        rep.inc("deep.linearity_checks");
        // per term: non-zero, depends on oods_values[i] and on exactly one column, not on oods_values[j != i]
        let cv_shift: Vec<Felt> = cv.iter().enumerate().map(|(c, v)| *v + Felt::from(c as u64 + 1)).collect();
        let cv_ones: Vec<Felt> = cv.iter().map(|v| *v + Felt::ONE).collect();
        let per_term: Vec<Result<(), String>> = par_map(nm, |i| {
            let e = unit(nm, i);
            let base = g(&cv, &ov, &e)?;
            if base == Felt::ZERO {
                return Err("term is zero (coefficient dropped)".into());
            }
            let mut ov2 = ov.clone();
            ov2[i] += Felt::ONE;
            let with_ov = g(&cv, &ov2, &e)?;
            if with_ov == base {
                return Err("term does not depend on its own opening oods_values[i]".into());
            }
            let mut ov3 = ov.clone();
            for (j, v) in ov3.iter_mut().enumerate() {
                if j != i {
                    *v += Felt::from(j as u64 + 7);
                }
            }
            if g(&cv, &ov3, &e)? != base {
                return Err("term depends on an opening other than its own".into());
            }
            // (col + 1 - ov)/(x-a) - (col - ov)/(x-a) = 1/(x-a);  shifting column c by c+1 gives (c+1)/(x-a)
            let d_ones = g(&cv_ones, &ov, &e)? - base;
            let d_shift = g(&cv_shift, &ov, &e)? - base;
            if d_ones == Felt::ZERO {
                return Err("term does not depend on any column value".into());
            }
            let ratio = d_shift * inv(d_ones);
            if !(0..ncol).any(|c| Felt::from(c as u64 + 1) == ratio) {
                return Err("term depends on more than one column value".into());
            }
            Ok(())
        });
        rep.count("deep.terms_probed", nm as u64);
        let mut sum_units = Felt::ZERO;
        for (i, r) in per_term.iter().enumerate() {
            rep.case(&format!("{lay}|deep-term|{env}|{i}"), true);
            if let Err(e) = r {
                rep.violation(&format!("C16|deep-term|{lay}|{}", e.split('(').next().unwrap_or("").trim()), &format!("DEEP coefficient position {i}: {e}"), json!({"layout": lay, "position": i}));
            }
        }
        for i in 0..nm.min(40) {
            sum_units += d1[i] * g(&cv, &ov, &unit(nm, i)).unwrap_or(Felt::ZERO);
        }
        let _ = sum_units;
        if rep.samples.len() < 3 {
            rep.sample(json!({"layout": lay, "environment": env, "n_constraints": nc, "deep_terms": nm, "f(c1)": hex(&f1), "g(d1)": hex(&g1)}));
        }
    }
    // ---- dynamic layout: every DEEP term reads the column AND the row offset of the same trace cell
    if h.proof.public_input.dynamic_params.is_some() {
        dynamic_pairing::<L>(h, rng, rep, &doms);
    }
    // every coefficient position contributes a term that is not identically zero
    for i in 0..nc {
        let ok = if pi_enabled.is_some() { nonzero_seen_enabled[i] } else { nonzero_seen[i] };
        if !ok {
            rep.violation(
                &format!("C16|dead-constraint|{lay}"),
                &format!("constraint coefficient position {i} contributed zero in {n_env} random environments{}", if pi_enabled.is_some() { " with every builtin enabled" } else { "" }),
                json!({"layout": lay, "position": i}),
            );
        }
        if pi_enabled.is_some() && nonzero_seen[i] && !nonzero_seen_enabled[i] {
            rep.violation(&format!("C16|dead-constraint|{lay}"), &format!("position {i} is active in the shipped instance but dead with every builtin enabled"), json!({"layout": lay, "position": i}));
        }
    }
    rep.count(&format!("positions_nonzero.{lay}"), if pi_enabled.is_some() { nonzero_seen_enabled.iter().filter(|x| **x).count() } else { nonzero_seen.iter().filter(|x| **x).count() } as u64);
    if pi_enabled.is_some() {
        rep.count("dynamic.positions_active_in_shipped_instance", nonzero_seen.iter().filter(|x| **x).count() as u64);
    }
    // ---- stark_commit hands FRI the powers of one challenge as DEEP coefficients
    let seed = h.proof.public_input.get_hash(cfg.n_verifier_friendly_commitment_layers);
    verif::start(u64::MAX);
    let sc = catch(|| {
        let mut t = Transcript::new(seed);
        stark_commit::<L>(&mut t, &h.proof.public_input, &h.proof.unsent_commitment, cfg, &doms).map(|c| c.interaction_after_oods).map_err(|e| format!("{e:?}"))
    });
    let ev = verif::take();
    if let Ok(Ok(coefs)) = sc {
        // the challenge squeezed right after the OODS values were absorbed
        let mut alpha = None;
        for w in ev.windows(2) {
            if let (Event::AbsorbVec { .. }, Event::Squeeze { out, .. }) = (&w[0], &w[1]) {
                alpha = Some(*out);
                break;
            }
        }
        let mut ok = coefs.len() == nm && alpha.is_some();
        let mut p = Felt::ONE;
        for c in &coefs {
            if Some(*c) != Some(p) {
                ok = false;
            }
            p *= alpha.unwrap_or(Felt::ZERO);
        }
        rep.inc("stark_commit.coefficient_vectors_checked");
        if !ok {
            rep.violation(&format!("C16|deep-coefficients-not-powers|{lay}"), "stark_commit's DEEP coefficient vector is not [1, a, a^2, ...] of length MASK_SIZE + CONSTRAINT_DEGREE for the challenge drawn after the OODS values", json!({"proof": h.name}));
        }
    } else {
        rep.inconclusive(&format!("{}: stark_commit failed on the honest proof", h.name));
    }
}

/// Dynamic layout: a trace cell `X` is placed by the two parameters `X_column` and `X_offset`. Every
/// column parameter is given a column index of its own, so the column a DEEP term reads names the
/// parameter it used; the offset parameters are then bumped in 8 rounds following a binary code, so
/// the set of rounds in which a term's evaluation point moves names the offset parameter it used.
/// A term whose column belongs to cell X and whose row offset belongs to cell Y != X pairs an opening
/// with the wrong trace cell (the opening it should bind is then bound by no DEEP term).
fn dynamic_pairing<L: LayoutTrait + GenericLayoutTrait>(h: &Honest, rng: &mut Rng, rep: &mut Report, doms: &StarkDomains) {
    let pi0 = &h.proof.public_input;
    let lay = h.layout.as_str();
    let nm = L::MASK_SIZE + L::CONSTRAINT_DEGREE;
    let d0 = serde_json::to_value(pi0.dynamic_params.as_ref().unwrap()).unwrap();
    let keys: Vec<String> = d0.as_object().unwrap().keys().cloned().collect();
    let col_keys: Vec<String> = keys.iter().filter(|k| k.ends_with("_column")).cloned().collect();
    let cells: Vec<String> = col_keys.iter().map(|k| k.trim_end_matches("_column").to_string()).filter(|x| keys.contains(&format!("{x}_offset"))).collect();
    let ncol = L::get_num_columns_first(pi0).unwrap() + L::get_num_columns_second(pi0).unwrap() + L::CONSTRAINT_DEGREE;
    let with = |f: &dyn Fn(&mut serde_json::Value)| -> PublicInput {
        let mut d = d0.clone();
        for (j, k) in col_keys.iter().enumerate() {
            d[k] = ((ncol + j) as u64).into();
        }
        f(&mut d);
        let mut p: PublicInput = serde_json::from_value(serde_json::to_value(pi0).unwrap()).unwrap();
        p.dynamic_params = Some(serde_json::from_value(d).unwrap());
        p
    };
    let nbits = 8usize;
    if cells.len() >= (1 << nbits) - 1 {
        rep.inconclusive("dynamic pairing monitor: more cells than codes");
        return;
    }
    let code = |cell_idx: usize| cell_idx + 1; // never 0
    let pis: Vec<PublicInput> = std::iter::once(with(&|_| {}))
        .chain((0..nbits).map(|r| {
            with(&|d: &mut serde_json::Value| {
                for (ci, c) in cells.iter().enumerate() {
                    if (code(ci) >> r) & 1 == 1 {
                        let k = format!("{c}_offset");
                        let v = d[&k].as_u64().unwrap_or(0);
                        d[&k] = (v + 1).into();
                    }
                }
            })
        }))
        .collect();
    let n_long = ncol + col_keys.len();
    let cv: Vec<Felt> = (0..n_long).map(|_| rng.felt()).collect();
    let cv_ones: Vec<Felt> = cv.iter().map(|v| *v + Felt::ONE).collect();
    let cv_shift: Vec<Felt> = cv.iter().enumerate().map(|(c, v)| *v + Felt::from(c as u64 + 1)).collect();
    let ov: Vec<Felt> = (0..nm).map(|_| rng.felt()).collect();
    let x = rng.felt();
    let z = rng.felt();
    let g = |pi: &PublicInput, cvv: &[Felt], c: &[Felt]| -> Result<Felt, String> {
        catch(|| L::eval_oods_polynomial(pi, cvv, &ov, c, &x, &z, &doms.trace_generator).map_err(|e| format!("{e:?}")))
            .map_err(|p| format!("panic {}:{} {}", p.file, p.line, p.msg))
            .and_then(|r| r)
    };
    // per term: (column index read, inverse denominator) under each parameter set
    let res: Vec<Result<(usize, Vec<Felt>), String>> = par_map(nm, |i| {
        let e = unit(nm, i);
        let base = g(&pis[0], &cv, &e)?;
        let d_ones = g(&pis[0], &cv_ones, &e)? - base;
        let d_shift = g(&pis[0], &cv_shift, &e)? - base;
        if d_ones == Felt::ZERO {
            return Err("term reads no column".into());
        }
        let ratio = d_shift * inv(d_ones);
        let col = (0..n_long).find(|c| Felt::from(*c as u64 + 1) == ratio).ok_or("term reads more than one column")?;
        let mut dens = vec![d_ones];
        for pr in &pis[1..] {
            let b = g(pr, &cv, &e)?;
            dens.push(g(pr, &cv_ones, &e)? - b);
        }
        Ok((col, dens))
    });
    let mut checked = 0u64;
    let mut fixed_cols = 0u64;
    for (i, r) in res.iter().enumerate() {
        rep.case(&format!("{lay}|deep-pairing|{i}"), true);
        match r {
            Err(e) => rep.inconclusive(&format!("dynamic pairing monitor: term {i}: {e}")),
            Ok((col, dens)) => {
                if *col < ncol {
                    // a column that no parameter names: only the composition columns may be read so
                    fixed_cols += 1;
                    continue;
                }
                let ckey = &col_keys[*col - ncol];
                let cell = ckey.trim_end_matches("_column");
                let mut seen_code = 0usize;
                for r in 0..nbits {
                    if dens[r + 1] != dens[0] {
                        seen_code |= 1 << r;
                    }
                }
                let want = cells.iter().position(|c| c == cell).map(code).unwrap_or(0);
                checked += 1;
                if seen_code != want {
                    let other = if seen_code >= 1 && seen_code - 1 < cells.len() { cells[seen_code - 1].clone() } else { format!("offset code {seen_code:#b}") };
                    rep.violation(
                        &format!("C16|deep-term|{lay}|column and row offset of different trace cells"),
                        &format!("DEEP coefficient position {i} reads column parameter {ckey} but its evaluation point follows the row offset of {other}: the opening is paired with the wrong trace cell"),
                        json!({"layout": lay, "position": i, "column_parameter": ckey, "offset_follows": other}),
                    );
                }
            }
        }
    }
    rep.count("dynamic.deep_terms_pairing_checked", checked);
    rep.count("dynamic.deep_terms_on_unnamed_columns", fixed_cols);
    if fixed_cols as usize > L::CONSTRAINT_DEGREE {
        rep.violation(&format!("C16|deep-term|{lay}|unnamed column"), &format!("{fixed_cols} DEEP terms read a column that no dynamic parameter names (only the {} composition columns may)", L::CONSTRAINT_DEGREE), json!({"layout": lay}));
    }
}

pub fn run(args: &Args) -> Report {
    let seed = args.u64("seed", 1);
    let thorough = args.thorough();
    let repo = args.str("repo", "/repo");
    let base = Rng::new(seed).fork("coeffs");
    let honest = honest_for_build(&repo);
    let mut total = Report::new();
    let mut done = std::collections::BTreeSet::new();
    for h in &honest {
        if !done.insert(h.layout.clone()) {
            continue;
        }
        let mut rng = base.fork(&h.layout);
        let n_env = if thorough { 6 } else { 2 };
        let mut rep = Report::new();
        crate::with_layout!(h.layout.as_str(), L, { probe_layout::<L>(h, &mut rng, &mut rep, n_env) });
        total.merge(rep);
        total.inc("layouts_probed");
    }
    total.note("per layout and random environment (mask values, point, OODS point, interaction elements): additivity, homogeneity, f(c) = sum c_i f(e_i), every f(e_i) != 0 (dynamic: with every builtin enabled; shipped-instance activity recorded), and for every DEEP term: non-zero, depends on its own opening only and on exactly one column; stark_commit's DEEP coefficients are the powers of the challenge drawn after the OODS values");
    total
}
