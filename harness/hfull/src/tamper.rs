//! C02 — accepted proofs are tamper-evident at every position (per-position fault enumeration).
use crate::layouts::build_stone;
use crate::mutate::{self, enumerate, get, path_class, path_str, Path, Seg, Worker};
use crate::trace;
use crate::{load, matrix, stone};
use num_bigint::BigUint;
use serde_json::{json, Value};
use std::collections::BTreeMap;
use swiftness_stark::types::StarkProof;
use vcommon::report::{Args, Report};
use vcommon::Rng;

pub struct Honest {
    pub name: String,
    pub layout: String,
    pub proof: StarkProof,
}

/// the honest proofs this build can accept: shipped files of the matching (hash, stone) + fixture
pub fn honest_for_build(repo: &str) -> Vec<Honest> {
    let mut out = vec![];
    for f in load::shipped(repo).into_iter().filter(load::matches_build) {
        let text = std::fs::read_to_string(&f.path).unwrap();
        if let Ok(l) = stone::load(&text) {
            if let Ok(p) = l.proof() {
                out.push(Honest { name: f.name.clone(), layout: f.layout.clone(), proof: p });
            }
        }
    }
    if vcomp::build_hash().name() == "keccak_160_lsb" && build_stone() == "stone5" {
        out.push(Honest { name: "in-tree fixture".into(), layout: "recursive".into(), proof: matrix::fixture_proof() });
    }
    out
}

#[derive(Clone)]
enum Mutation {
    Replace(Path, String, BigUint),
    Delete(Path, usize),
    Append(Path),
}

fn apply(base: &Value, m: &Mutation) -> Option<Value> {
    let mut v = base.clone();
    match m {
        Mutation::Replace(p, _, val) => {
            if !mutate::set_leaf(&mut v, p, val) {
                return None;
            }
        }
        Mutation::Delete(p, i) => {
            let a = mutate::get_mut(&mut v, p)?.as_array_mut()?;
            if *i >= a.len() {
                return None;
            }
            a.remove(*i);
        }
        Mutation::Append(p) => {
            let a = mutate::get_mut(&mut v, p)?.as_array_mut()?;
            let last = a.last().cloned()?;
            a.push(last);
        }
    }
    Some(v)
}

fn describe(name: &str, m: &Mutation) -> Value {
    match m {
        Mutation::Replace(p, kind, val) => json!({"proof": name, "position": path_str(p), "replacement": kind, "value": format!("0x{:x}", val)}),
        Mutation::Delete(p, i) => json!({"proof": name, "vector": path_str(p), "deleted_index": i}),
        Mutation::Append(p) => json!({"proof": name, "vector": path_str(p), "appended": "copy of last element"}),
    }
}

pub fn run(args: &Args) -> Report {
    let seed = args.u64("seed", 1);
    let thorough = args.thorough();
    let repo = args.str("repo", "/repo");
    let mut worker = Worker::new(args);
    let mut rep = Report::new();
    let stone6 = build_stone() == "stone6";
    let base_rng = Rng::new(seed).fork("tamper").fork(vcomp::build_hash().name()).fork(build_stone());
    let mut honest = honest_for_build(&repo);
    if honest.is_empty() {
        rep.note("no honest proof exists for this build; nothing to tamper with");
        return rep;
    }
    // quick: every honest proof of the build (all layouts), a few sampled positions per class each;
    // thorough: every position of every proof
    let _ = &mut honest;
    let per_class_quick = args.u64("perclass", 5) as usize;
    let k_values = if thorough { 3 } else { 2 };
    let mut idx: u64 = 0;
    for h in &honest {
        let sec = h.proof.config.security_bits();
        let base = serde_json::to_value(&h.proof).unwrap();
        // precondition: the original is accepted (checked by every worker; cheap)
        let run0 = trace::run_verify(&h.layout, &h.proof, sec, 1_000_000);
        if !run0.verdict.accepted() {
            rep.inconclusive(&format!("{}: original not accepted ({}); see C03", h.name, run0.verdict.short()));
            continue;
        }
        rep.inc("originals_accepted");
        let (leaves, arrays) = enumerate(&base);
        let mut rng = base_rng.fork(&h.name);
        let mut muts: Vec<(Mutation, bool)> = vec![]; // (mutation, verdict-relevant)
        // (A) every vector loses one element: first, last, one in the middle
        for a in &arrays {
            let len = get(&base, a).and_then(|x| x.as_array()).map(|x| x.len()).unwrap_or(0);
            if len == 0 {
                continue;
            }
            let mut pos = vec![0, len - 1];
            if len > 2 {
                pos.push(1 + rng.below(len as u64 - 2) as usize);
            }
            pos.sort();
            pos.dedup();
            for i in pos {
                muts.push((Mutation::Delete(a.clone(), i), true));
            }
            // tolerated malleability: recorded, no verdict
            muts.push((Mutation::Append(a.clone()), false));
        }
        // (B) every leaf replaced by k different values (quick: stratified sample per class)
        let mut by_class: BTreeMap<String, Vec<&Path>> = BTreeMap::new();
        for l in &leaves {
            by_class.entry(path_class(l)).or_default().push(l);
        }
        if worker.shard == 0 {
            rep.count("leaf_classes", by_class.len() as u64);
            rep.count("positions_total", leaves.len() as u64);
        }
        for (_c, ls) in by_class.iter() {
            let chosen: Vec<&Path> = if thorough || ls.len() <= per_class_quick {
                ls.clone()
            } else {
                let mut v = ls.clone();
                rng.shuffle(&mut v);
                v.truncate(per_class_quick);
                v
            };
            let r0 = rng.below(8) as usize;
            for (j, l) in chosen.into_iter().enumerate() {
                let cur = get(&base, l).unwrap();
                let Some(orig) = mutate::leaf_big(cur) else { continue };
                let is_hex = cur.is_string();
                // configuration numbers are few and cheap to refuse: every replacement kind, always
                let k = if _c.starts_with("config") { usize::MAX } else { k_values };
                for (kind, val) in mutate::tamper_values_rot(&orig, is_hex, mutate::int_max_for(l), &mut rng, k, r0 + j * k_values) {
                    muts.push((Mutation::Replace(l.clone(), kind, val), true));
                }
            }
        }
        for (m, relevant) in muts {
            let my = worker.wants(idx);
            idx += 1;
            if !my {
                continue;
            }
            let d = describe(&h.name, &m);
            let class = match &m {
                Mutation::Replace(p, ..) => format!("replace {}", path_class(p)),
                Mutation::Delete(p, _) => format!("delete from {}", path_class(p)),
                Mutation::Append(p) => format!("append to {}", path_class(p)),
            };
            if worker.skips(&class) {
                rep.inc("skipped.class_with_established_worker_deaths");
                continue;
            }
            worker.begin(idx - 1, &class, &d.to_string());
            if let Some(v) = apply(&base, &m) {
                match serde_json::from_value::<StarkProof>(v) {
                    Err(_) => rep.inc("mutants_ill_typed"),
                    Ok(mp) => {
                        if mp == h.proof {
                            rep.inc("mutants_equal_to_original");
                        } else {
                            let run = trace::run_verify(&h.layout, &mp, sec, 200_000);
                            rep.case(&d.to_string(), relevant);
                            if rep.samples.len() < 4 && relevant {
                                rep.sample(json!({"mutation": d.clone(), "verdict": run.verdict.short()}));
                            }
                            // protocol grammar on every mutant run (reported under C08)
                            match trace::check_trace(&h.layout, &mp, &run, stone6) {
                                Ok(s) => rep.inc(&format!("trace_stage.{}", s.stage)),
                                Err(e) => rep.violation("C08|trace|mutant-run-breaks-grammar", &format!("{e} ({class})"), d.clone()),
                            }
                            if relevant {
                                rep.inc(&format!("class.{class}"));
                                if run.verdict.accepted() {
                                    rep.violation(&format!("C02|accepted|{class}"), &format!("single-position mutant accepted: {class}"), d.clone());
                                } else {
                                    rep.inc("mutants_rejected");
                                    if matches!(run.verdict, trace::Verdict::Panicked(_)) {
                                        rep.inc("mutants_rejected_by_panic");
                                    }
                                }
                            } else {
                                rep.inc(if run.verdict.accepted() { "appended.accepted" } else { "appended.rejected" });
                            }
                        }
                    }
                }
            }
            worker.end(idx - 1, &rep);
        }
    }
    let _ = Seg::Idx(0);
    rep.note("every vector loses its first / last / one middle element; every leaf (quick: a stratified sample per position class) is replaced by different values (+1, flipped low/high bit, random, 0/1/-1); appended trailing elements are recorded without verdict");
    rep
}
