//! C14 — public-input validation and the returned hashes follow the memory layout
//! (differential against an integer predicate and an address-based hash oracle).
use crate::matrix::hash_oracle;
use crate::tamper::{honest_for_build, Honest};
use num_bigint::BigUint;
use serde_json::json;
use starknet_crypto::Felt;
use std::collections::BTreeMap;
use swiftness_air::domains::StarkDomains;
use swiftness_air::layout::LayoutTrait;
use swiftness_air::public_memory::PublicInput;
use vcommon::guard::{catch, n_threads, par_run};
use vcommon::report::{Args, Report};
use vcommon::{big, fu64, hex, Rng};

#[derive(Debug, PartialEq, Clone, Copy)]
pub enum Expect {
    Accept,
    Reject,
    DontCare,
}

pub struct Builtin {
    pub name: &'static str,
    pub seg: usize,
    pub cells: u64,
    /// None: not usable in this instance (dynamic layout, flag off) => zero copies
    pub row_ratio: Option<u64>,
}

pub struct LayoutFacts {
    pub n_segments: usize,
    pub code: Felt,
    pub cpu_step: u64,
    pub builtins: Vec<Builtin>,
    pub output_seg: usize,
    pub dynamic: bool,
}

pub fn facts(layout: &str, pi: &PublicInput) -> LayoutFacts {
    use swiftness_air::layout::*;
    macro_rules! b {
        ($n:expr, $s:expr, $c:expr, $r:expr) => {
            Builtin { name: $n, seg: $s, cells: $c, row_ratio: Some($r as u64) }
        };
    }
    match layout {
        "dex" => LayoutFacts { n_segments: dex::segments::N_SEGMENTS, code: dex::LAYOUT_CODE, cpu_step: dex::CPU_COMPONENT_STEP as u64, output_seg: dex::segments::OUTPUT, dynamic: false,
            builtins: vec![b!("pedersen", dex::segments::PEDERSEN, 3, dex::PEDERSEN_BUILTIN_ROW_RATIO), b!("range_check", dex::segments::RANGE_CHECK, 1, dex::RANGE_CHECK_BUILTIN_ROW_RATIO), b!("ecdsa", dex::segments::ECDSA, 2, dex::ECDSA_BUILTIN_ROW_RATIO)] },
        "small" => LayoutFacts { n_segments: small::segments::N_SEGMENTS, code: small::LAYOUT_CODE, cpu_step: small::CPU_COMPONENT_STEP as u64, output_seg: small::segments::OUTPUT, dynamic: false,
            builtins: vec![b!("pedersen", small::segments::PEDERSEN, 3, small::PEDERSEN_BUILTIN_ROW_RATIO), b!("range_check", small::segments::RANGE_CHECK, 1, small::RANGE_CHECK_BUILTIN_ROW_RATIO), b!("ecdsa", small::segments::ECDSA, 2, small::ECDSA_BUILTIN_ROW_RATIO)] },
        "recursive" => LayoutFacts { n_segments: recursive::segments::N_SEGMENTS, code: recursive::LAYOUT_CODE, cpu_step: recursive::CPU_COMPONENT_STEP as u64, output_seg: recursive::segments::OUTPUT, dynamic: false,
            builtins: vec![b!("pedersen", recursive::segments::PEDERSEN, 3, recursive::PEDERSEN_BUILTIN_ROW_RATIO), b!("range_check", recursive::segments::RANGE_CHECK, 1, recursive::RANGE_CHECK_BUILTIN_ROW_RATIO), b!("bitwise", recursive::segments::BITWISE, 5, recursive::BITWISE_ROW_RATIO)] },
        "recursive_with_poseidon" => { use recursive_with_poseidon as m; LayoutFacts { n_segments: m::segments::N_SEGMENTS, code: m::LAYOUT_CODE, cpu_step: m::CPU_COMPONENT_STEP as u64, output_seg: m::segments::OUTPUT, dynamic: false,
            builtins: vec![b!("pedersen", m::segments::PEDERSEN, 3, m::PEDERSEN_BUILTIN_ROW_RATIO), b!("range_check", m::segments::RANGE_CHECK, 1, m::RANGE_CHECK_BUILTIN_ROW_RATIO), b!("bitwise", m::segments::BITWISE, 5, m::BITWISE_ROW_RATIO), b!("poseidon", m::segments::POSEIDON, 6, m::POSEIDON_ROW_RATIO)] } }
        "starknet" => { use starknet as m; LayoutFacts { n_segments: m::segments::N_SEGMENTS, code: m::LAYOUT_CODE, cpu_step: m::CPU_COMPONENT_STEP as u64, output_seg: m::segments::OUTPUT, dynamic: false,
            builtins: vec![b!("pedersen", m::segments::PEDERSEN, 3, m::PEDERSEN_BUILTIN_ROW_RATIO), b!("range_check", m::segments::RANGE_CHECK, 1, m::RANGE_CHECK_BUILTIN_ROW_RATIO), b!("ecdsa", m::segments::ECDSA, 2, m::ECDSA_BUILTIN_ROW_RATIO), b!("bitwise", m::segments::BITWISE, 5, m::BITWISE_ROW_RATIO), b!("ec_op", m::segments::EC_OP, 7, m::EC_OP_BUILTIN_ROW_RATIO), b!("poseidon", m::segments::POSEIDON, 6, m::POSEIDON_ROW_RATIO)] } }
        "starknet_with_keccak" => { use starknet_with_keccak as m; LayoutFacts { n_segments: m::segments::N_SEGMENTS, code: m::LAYOUT_CODE, cpu_step: m::CPU_COMPONENT_STEP as u64, output_seg: m::segments::OUTPUT, dynamic: false,
            builtins: vec![b!("pedersen", m::segments::PEDERSEN, 3, m::PEDERSEN_BUILTIN_ROW_RATIO), b!("range_check", m::segments::RANGE_CHECK, 1, m::RANGE_CHECK_BUILTIN_ROW_RATIO), b!("ecdsa", m::segments::ECDSA, 2, m::ECDSA_BUILTIN_ROW_RATIO), b!("bitwise", m::segments::BITWISE, 5, m::BITWISE_ROW_RATIO), b!("ec_op", m::segments::EC_OP, 7, m::EC_OP_BUILTIN_ROW_RATIO), b!("keccak", m::segments::KECCAK, 16, m::KECCAK_ROW_RATIO), b!("poseidon", m::segments::POSEIDON, 6, m::POSEIDON_ROW_RATIO)] } }
        "dynamic" => {
            use dynamic as m;
            let d = pi.dynamic_params.as_ref();
            let g = |uses: usize, ratio: usize| if uses == 0 { None } else { Some(ratio as u64) };
            let mut builtins = vec![];
            if let Some(d) = d {
                builtins = vec![
                    Builtin { name: "pedersen", seg: m::segments::PEDERSEN, cells: 3, row_ratio: g(d.uses_pedersen_builtin, d.pedersen_builtin_row_ratio) },
                    Builtin { name: "range_check", seg: m::segments::RANGE_CHECK, cells: 1, row_ratio: g(d.uses_range_check_builtin, d.range_check_builtin_row_ratio) },
                    Builtin { name: "ecdsa", seg: m::segments::ECDSA, cells: 2, row_ratio: g(d.uses_ecdsa_builtin, d.ecdsa_builtin_row_ratio) },
                    Builtin { name: "bitwise", seg: m::segments::BITWISE, cells: 5, row_ratio: g(d.uses_bitwise_builtin, d.bitwise_row_ratio) },
                    Builtin { name: "ec_op", seg: m::segments::EC_OP, cells: 7, row_ratio: g(d.uses_ec_op_builtin, d.ec_op_builtin_row_ratio) },
                    Builtin { name: "keccak", seg: m::segments::KECCAK, cells: 16, row_ratio: g(d.uses_keccak_builtin, d.keccak_row_ratio) },
                    Builtin { name: "poseidon", seg: m::segments::POSEIDON, cells: 6, row_ratio: g(d.uses_poseidon_builtin, d.poseidon_row_ratio) },
                    Builtin { name: "range_check96", seg: m::segments::RANGE_CHECK96, cells: 1, row_ratio: g(d.uses_range_check96_builtin, d.range_check96_builtin_row_ratio) },
                    Builtin { name: "add_mod", seg: m::segments::ADD_MOD, cells: 7, row_ratio: g(d.uses_add_mod_builtin, d.add_mod_row_ratio) },
                    Builtin { name: "mul_mod", seg: m::segments::MUL_MOD, cells: 7, row_ratio: g(d.uses_mul_mod_builtin, d.mul_mod_row_ratio) },
                ];
            }
            LayoutFacts { n_segments: m::segments::N_SEGMENTS, code: m::LAYOUT_CODE, cpu_step: d.map(|d| d.cpu_component_step as u64).unwrap_or(1), output_seg: m::segments::OUTPUT, dynamic: true, builtins }
        }
        other => panic!("unknown layout {other}"),
    }
}

/// the statement of C14 (validation part), every number read as a non-negative integer
pub fn predicate(f: &LayoutFacts, pi: &PublicInput, log_trace: u64) -> (Expect, String) {
    let u = |x: u64| BigUint::from(x);
    let lns = big(&pi.log_n_steps);
    if lns >= u(80) {
        return (Expect::Reject, "step count exponent >= 80".into());
    }
    let lns = u64::try_from(lns).unwrap();
    let trace_len = BigUint::from(1u8) << log_trace;
    if (BigUint::from(1u8) << lns) * u(16) * u(f.cpu_step) != trace_len {
        return (Expect::Reject, "step count does not match the trace length".into());
    }
    if pi.segments.len() != f.n_segments {
        return (Expect::Reject, "segment count".into());
    }
    if pi.layout != f.code {
        return (Expect::Reject, "layout code".into());
    }
    let (rmin, rmax) = (big(&pi.range_check_min), big(&pi.range_check_max));
    if !(rmin < rmax && rmax <= u(0xffff)) {
        return (Expect::Reject, "range-check bounds".into());
    }
    for b in &f.builtins {
        let s = &pi.segments[b.seg];
        let (begin, stop) = (big(&s.begin_addr), big(&s.stop_ptr));
        if stop < begin {
            return (Expect::Reject, format!("{}: stop pointer below the segment start", b.name));
        }
        let used = &stop - &begin;
        if &used % u(b.cells) != u(0) {
            return (Expect::Reject, format!("{}: usage is not a whole number of instances", b.name));
        }
        let copies = match b.row_ratio {
            Some(r) if r > 0 => &trace_len / u(r),
            _ => u(0),
        };
        if &used / u(b.cells) > copies {
            return (Expect::Reject, format!("{}: more instances than the trace holds", b.name));
        }
    }
    let o = &pi.segments[f.output_seg];
    let (ob, os) = (big(&o.begin_addr), big(&o.stop_ptr));
    if os < ob || &os - &ob > BigUint::from(u128::MAX) {
        return (Expect::DontCare, "output segment size".into());
    }
    if f.dynamic {
        return (Expect::DontCare, "dynamic parameter assertions are not part of the statement".into());
    }
    (Expect::Accept, String::new())
}

fn clone_pi(pi: &PublicInput) -> PublicInput {
    serde_json::from_value(serde_json::to_value(pi).unwrap()).unwrap()
}

fn check_validate<L: LayoutTrait>(rep: &mut Report, lay: &str, pi: &PublicInput, log_trace: u64, log_cosets: u64, label: &str, unchanged: bool) {
    let f = facts(lay, pi);
    let (mut exp, why) = if pi.segments.len() == f.n_segments || true {
        // predicate handles the segment count itself; guard indexing
        if pi.segments.len() < f.n_segments && pi.segments.len() != f.n_segments {
            (Expect::Reject, "segment count".to_string())
        } else {
            predicate(&f, pi, log_trace)
        }
    } else {
        unreachable!()
    };
    if unchanged {
        exp = Expect::Accept;
    }
    let doms = StarkDomains::new(Felt::from(log_trace), Felt::from(log_cosets));
    let got = catch(|| L::validate_public_input(pi, &doms).map_err(|e| format!("{e:?}")));
    let outcome = match &got {
        Ok(Ok(())) => "accepted",
        Ok(Err(_)) => "rejected",
        Err(_) => "panicked",
    };
    rep.case(&format!("{lay}|validate|{label}|{log_trace}"), true);
    rep.inc(&format!("validate.expected_{exp:?}.{outcome}"));
    let replay = json!({"layout": lay, "edit": label, "log_trace_length": log_trace, "predicate": format!("{exp:?}: {why}"), "observed": format!("{got:?}").chars().take(200).collect::<String>()});
    match (exp, outcome) {
        (Expect::Reject, "accepted") => {
            // specific signature: the violated conjunct (names the builtin) + the edit with numbers collapsed
            let mut edit = String::new();
            let mut last_hash = false;
            for ch in label.chars() {
                if ch.is_ascii_digit() {
                    if !last_hash {
                        edit.push('#');
                    }
                    last_hash = true;
                } else {
                    last_hash = false;
                    edit.push(ch);
                }
            }
            let kind = format!("{why} [{edit}]");
            rep.violation(&format!("C14|validate-accepted|{lay}|{kind}"), &format!("validate_public_input accepted an input the statement excludes: {why} [{label}, trace 2^{log_trace}]"), replay)
        }
        (Expect::Accept, "rejected") | (Expect::Accept, "panicked") => rep.violation(&format!("C14|validate-rejected-valid|{lay}"), &format!("validate_public_input did not accept a valid input [{label}]"), replay),
        _ => {}
    }
}

fn check_verify<L: LayoutTrait>(rep: &mut Report, lay: &str, pi: &PublicInput, label: &str, unchanged: bool) {
    let seg = |i: usize, stop: bool| pi.segments.get(i).map(|s| if stop { s.stop_ptr } else { s.begin_addr });
    let got = catch(|| L::verify_public_input(pi).map_err(|e| format!("{e:?}")));
    rep.case(&format!("{lay}|verify|{label}"), true);
    // address -> value. Only the addresses the hashes are computed from matter. If such an address is
    // listed twice with different values the page is inconsistent (which the AIR's memory argument
    // rejects, not this function): either value is then accepted by the oracle.
    let mut mem: BTreeMap<u64, Felt> = BTreeMap::new();
    let mut mem_last: BTreeMap<u64, Felt> = BTreeMap::new();
    for c in pi.main_page.iter() {
        if let Some(a) = fu64(&c.address) {
            mem.entry(a).or_insert(c.value);
            mem_last.insert(a, c.value);
        }
    }
    let bounds = match (seg(0, false).and_then(|f| fu64(&f)), seg(1, false).and_then(|f| fu64(&f)), seg(2, false).and_then(|f| fu64(&f)), seg(2, true).and_then(|f| fu64(&f))) {
        (Some(pc), Some(ap), Some(ob), Some(os)) if os >= ob && os - ob < (1 << 20) && ap < (1 << 30) && ap >= 2 => Some((pc, ap, ob, os)),
        _ => None,
    };
    let want = match bounds {
        Some((pc, ap, ob, os)) => hash_oracle(&mem, pc, ap, ob, os),
        None => Err("segment bounds unusable".into()),
    };
    let want_alt = bounds.and_then(|(pc, ap, ob, os)| hash_oracle(&mem_last, pc, ap, ob, os).ok());
    let outcome = match &got {
        Ok(Ok(_)) => "ok",
        Ok(Err(_)) => "rejected",
        Err(_) => "panicked",
    };
    rep.inc(&format!("verify.oracle_{}.{outcome}", if want.is_ok() { "computable" } else { "fails" }));
    let replay = json!({"layout": lay, "edit": label, "oracle": format!("{want:?}").chars().take(160).collect::<String>(), "observed": format!("{got:?}").chars().take(200).collect::<String>()});
    // "too short": the page has to hold the program cells and the output cells (disjoint segments)
    let too_short = bounds.map(|(pc, ap, ob, os)| (pi.main_page.len() as u64) < (ap - 2).saturating_sub(pc) + (os - ob)).unwrap_or(false);
    match (&got, &want) {
        (Ok(Ok(_)), _) if too_short => rep.violation(&format!("C14|verify-too-short|{lay}"), &format!("verify_public_input accepted a main page with fewer cells than the program and the output segment need together [{label}]"), replay),
        (Ok(Ok(pair)), Ok(w)) if pair == w || Some(*pair) == want_alt => rep.inc("verify.hashes_equal_address_based_oracle"),
        (Ok(Ok(_)), Ok(_)) => rep.violation(&format!("C14|verify-wrong-cells|{lay}"), &format!("verify_public_input returned hashes of cells other than the program/output addresses [{label}]"), replay),
        (Ok(Ok(_)), Err(e)) => rep.violation(&format!("C14|verify-positional|{lay}"), &format!("verify_public_input hashed a main page positionally although {e} [{label}]"), replay),
        (_, Ok(_)) if unchanged => rep.violation(&format!("C14|verify-rejected-honest|{lay}"), "verify_public_input rejected the honest public input", replay),
        _ => {}
    }
}

fn probe<L: LayoutTrait>(h: &Honest, rng: &mut Rng, rep: &mut Report, thorough: bool) {
    let lay = h.layout.as_str();
    let pi0 = &h.proof.public_input;
    let t = fu64(&h.proof.config.log_trace_domain_size).unwrap();
    let c = fu64(&h.proof.config.log_n_cosets).unwrap();
    let f = facts(lay, pi0);
    check_validate::<L>(rep, lay, pi0, t, c, "unchanged", true);
    check_verify::<L>(rep, lay, pi0, "unchanged", true);
    // ---- validation: boundary values around every bound
    let mut edits: Vec<(String, PublicInput, u64)> = vec![];
    let push = |edits: &mut Vec<(String, PublicInput, u64)>, l: String, p: PublicInput, tt: u64| edits.push((l, p, tt));
    for v in [0u64, 1, 78, 79, 80, 81, 255, t - 5, t - 4 + 1] {
        let mut p = clone_pi(pi0);
        p.log_n_steps = Felt::from(v);
        push(&mut edits, format!("log_n_steps = {v}"), p, t);
    }
    // exponent aliases: 2^log_n_steps is unchanged when the exponent moves by a multiple of the order of 2
    for m in 1u8..=9 {
        let x = big(&pi0.log_n_steps) + vcommon::ord2() * BigUint::from(m);
        if x < vcommon::prime() {
            let mut p = clone_pi(pi0);
            p.log_n_steps = vcommon::felt_from_big(&x);
            push(&mut edits, format!("log_n_steps = honest + {m}*ord(2)"), p, t);
        }
    }
    for (mn, mx) in [(0u64, 0u64), (0, 1), (5, 5), (6, 5), (0, 0xffff), (0, 0x10000), (0xffff, 0x10000), (0xfffe, 0xffff), (0x10000, 0x10001)] {
        let mut p = clone_pi(pi0);
        p.range_check_min = Felt::from(mn);
        p.range_check_max = Felt::from(mx);
        push(&mut edits, format!("rc_min={mn:#x}, rc_max={mx:#x}"), p, t);
    }
    {
        let mut p = clone_pi(pi0);
        p.range_check_min = Felt::ZERO - Felt::ONE;
        push(&mut edits, "rc_min = p-1".into(), p, t);
        let mut p = clone_pi(pi0);
        p.layout += Felt::ONE;
        push(&mut edits, "layout code + 1".into(), p, t);
        for other in crate::layouts::LAYOUTS {
            if other != lay {
                let mut p = clone_pi(pi0);
                p.layout = Felt::from_hex(&crate::stone::layout_code(other)).unwrap();
                push(&mut edits, format!("layout code of {other}"), p, t);
            }
        }
        let mut p = clone_pi(pi0);
        p.segments.pop();
        push(&mut edits, "last segment removed".into(), p, t);
        let mut p = clone_pi(pi0);
        let last = serde_json::from_value(serde_json::to_value(p.segments.last().unwrap()).unwrap()).unwrap();
        p.segments.push(last);
        push(&mut edits, "one segment appended".into(), p, t);
    }
    for b in &f.builtins {
        let copies: u64 = match b.row_ratio { Some(r) if r > 0 => (1u64 << t) / r, _ => 0 };
        let begin = pi0.segments[b.seg].begin_addr;
        let mut cases: Vec<(String, Felt)> = vec![
            ("0 instances".into(), begin),
            ("max instances".into(), begin + Felt::from(copies * b.cells)),
            ("max+1 instances".into(), begin + Felt::from((copies + 1) * b.cells)),
            ("max instances + 1 cell".into(), begin + Felt::from(copies * b.cells + 1)),
            ("1 cell".into(), begin + Felt::ONE),
            ("stop = begin - 1".into(), begin - Felt::ONE),
            ("stop = begin - cells".into(), begin - Felt::from(b.cells)),
            ("2^64 instances".into(), begin + Felt::from(u64::MAX) * Felt::from(b.cells)),
        ];
        if b.cells > 1 {
            cases.push(("cells-1".into(), begin + Felt::from(b.cells - 1)));
            // a usage that is a field multiple but not an integer multiple: cells * m == k (mod p) with m small?
        }
        for (l, stop) in cases {
            let mut p = clone_pi(pi0);
            p.segments[b.seg].stop_ptr = stop;
            push(&mut edits, format!("{}: {l}", b.name), p, t);
        }
        // begin above stop through a huge start address (usage wraps around the field)
        let mut p = clone_pi(pi0);
        p.segments[b.seg].begin_addr = Felt::ZERO - Felt::from(b.cells * 2);
        p.segments[b.seg].stop_ptr = Felt::ZERO;
        push(&mut edits, format!("{}: begin = p - 2*cells, stop = 0", b.name), p, t);
        // trace shorter than the builtin's row ratio: one instance claimed
        if let Some(r) = b.row_ratio {
            if r > 16 * f.cpu_step {
                let small_t = (r.trailing_zeros() as u64).saturating_sub(1).max(4 + f.cpu_step.trailing_zeros() as u64);
                let mut p = clone_pi(pi0);
                p.log_n_steps = Felt::from(small_t - 4 - f.cpu_step.trailing_zeros() as u64);
                p.segments[b.seg].stop_ptr = p.segments[b.seg].begin_addr + Felt::from(b.cells);
                push(&mut edits, format!("{}: one instance with a trace of 2^{small_t} rows (row ratio {r})", b.name), p, small_t);
            }
        }
    }
    // dynamic layout: a builtin that is declared unused holds no instance, whatever its row ratio says
    if f.dynamic {
        let d0 = serde_json::to_value(pi0.dynamic_params.as_ref().unwrap()).unwrap();
        for b in &f.builtins {
            let ratio_key = d0.as_object().unwrap().keys().find(|k| k.starts_with(b.name) && k.ends_with("row_ratio") && (b.name != "range_check" || !k.contains("96")) ).cloned();
            let flag_key = format!("uses_{}_builtin", b.name);
            let Some(rk) = ratio_key else { continue };
            for (flag, ratio, claim) in [(0u64, 1024u64, 1u64), (0, 16, 1), (0, 0, 1), (1, 1024, 1), (1, 1u64 << 20, 1)] {
                let mut d = d0.clone();
                d[&flag_key] = flag.into();
                d[&rk] = ratio.into();
                let mut p = clone_pi(pi0);
                p.dynamic_params = serde_json::from_value(d).ok();
                p.segments[b.seg].stop_ptr = p.segments[b.seg].begin_addr + Felt::from(claim * b.cells);
                push(&mut edits, format!("{}: uses flag {flag}, row ratio {ratio}, {claim} instance claimed", b.name), p, t);
            }
        }
    }
    // trace sizes 2^0..2^30 with the step count following
    let tmax = if thorough { 30 } else { 24 };
    for tt in 0..=tmax {
        let step_log = 4 + f.cpu_step.trailing_zeros() as u64;
        if tt >= step_log {
            let mut p = clone_pi(pi0);
            p.log_n_steps = Felt::from(tt - step_log);
            push(&mut edits, format!("trace 2^{tt}, steps follow"), p, tt);
        }
        let p = clone_pi(pi0);
        push(&mut edits, format!("trace 2^{tt}, steps unchanged"), p, tt);
    }
    for (l, p, tt) in &edits {
        check_validate::<L>(rep, lay, p, *tt, c, l, false);
    }
    rep.count("validate.edits", edits.len() as u64);
    // ---- returned hashes: main-page address perturbations
    let n = pi0.main_page.len();
    let mut vedits: Vec<(String, PublicInput)> = vec![];
    let cells: Vec<usize> = if thorough || n <= 64 { (0..n).collect() } else { let mut v: Vec<usize> = (0..n).collect(); rng.shuffle(&mut v); v.truncate(64); v };
    for &i in &cells {
        for (l, d) in [("+1", Felt::ONE), ("-1", Felt::ZERO - Felt::ONE), ("+0x1000", Felt::from(0x1000u64)), ("+2^64", Felt::from(1u128 << 64)), ("+3*2^64", Felt::from(3u128 << 64)), ("+2^128", Felt::from(u128::MAX) + Felt::ONE), ("+2^32", Felt::from(1u64 << 32))] {
            let mut p = clone_pi(pi0);
            p.main_page.0[i].address += d;
            vedits.push((format!("cell {i} address {l}"), p));
        }
        let mut p = clone_pi(pi0);
        p.main_page.0.remove(i);
        vedits.push((format!("cell {i} removed"), p));
        let mut p = clone_pi(pi0);
        let dup = serde_json::from_value(serde_json::to_value(&p.main_page.0[i]).unwrap()).unwrap();
        p.main_page.0.insert(i, dup);
        vedits.push((format!("cell {i} duplicated"), p));
        if i + 1 < n {
            let mut p = clone_pi(pi0);
            p.main_page.0.swap(i, i + 1);
            vedits.push((format!("cells {i},{} swapped", i + 1), p));
        }
        let j = rng.below(n as u64) as usize;
        if j != i {
            let mut p = clone_pi(pi0);
            p.main_page.0.swap(i, j);
            vedits.push((format!("cells {i},{j} swapped"), p));
        }
    }
    for keep in [0usize, 1, 2, n / 2, n.saturating_sub(1)] {
        let mut p = clone_pi(pi0);
        p.main_page.0.truncate(keep);
        vedits.push((format!("page truncated to {keep} cells"), p));
    }
    for (segi, name) in [(0usize, "program"), (1, "execution"), (2, "output")] {
        for (which, stop) in [("begin", false), ("stop", true)] {
            for d in [Felt::ONE, Felt::ZERO - Felt::ONE, Felt::from(7u64), Felt::from(1u64 << 40)] {
                let mut p = clone_pi(pi0);
                if stop {
                    p.segments[segi].stop_ptr += d;
                } else {
                    p.segments[segi].begin_addr += d;
                }
                vedits.push((format!("{name} {which} {}", if d == Felt::ONE { "+1".to_string() } else if d == Felt::ZERO - Felt::ONE { "-1".to_string() } else { format!("+{}", hex(&d)) }), p));
            }
        }
    }
    // a segment moved as a whole (begin and stop by the same amount) over an untouched page
    for (segi, name) in [(0usize, "program"), (1, "execution"), (2, "output")] {
        for (l, d) in [("+1", Felt::ONE), ("-1", Felt::ZERO - Felt::ONE), ("+7", Felt::from(7u64)), ("+0x1000", Felt::from(0x1000u64)), ("+2^32", Felt::from(1u64 << 32)), ("+2^64", Felt::from(1u128 << 64)), ("+2^128", Felt::from(u128::MAX) + Felt::ONE)] {
            let mut p = clone_pi(pi0);
            p.segments[segi].begin_addr += d;
            p.segments[segi].stop_ptr += d;
            vedits.push((format!("{name} segment moved by {l}"), p));
        }
    }
    {
        // two cooperating edits: the output segment re-declared onto addresses that are already in the
        // page (the end of the program, the cells after it), with the page truncated accordingly
        let pc = fu64(&pi0.segments[0].begin_addr).unwrap_or(1);
        let ap = fu64(&pi0.segments[1].begin_addr).unwrap_or(3);
        let prog_len = (ap - 2).saturating_sub(pc) as usize;
        for k in [1usize, 2, 3, 5] {
            if prog_len > k && n > prog_len {
                // output = last k program addresses, page = program only
                let mut p = clone_pi(pi0);
                p.segments[2].begin_addr = Felt::from(pc + (prog_len - k) as u64);
                p.segments[2].stop_ptr = Felt::from(pc + prog_len as u64);
                p.main_page.0.truncate(prog_len);
                vedits.push((format!("output segment declared on the last {k} program addresses, page truncated to the program"), p));
                // output = the k cells right after the program, page cut right after them
                if n >= prog_len + k {
                    let mut p = clone_pi(pi0);
                    let a0 = fu64(&pi0.main_page.0[prog_len].address).unwrap_or(0);
                    p.segments[2].begin_addr = Felt::from(a0);
                    p.segments[2].stop_ptr = Felt::from(a0 + k as u64);
                    p.main_page.0.truncate(prog_len + k);
                    vedits.push((format!("output segment declared on the {k} cells after the program, page truncated after them"), p));
                }
                // output longer than what is left of the page
                let mut p = clone_pi(pi0);
                p.segments[2].stop_ptr = p.segments[2].begin_addr + Felt::from((n - prog_len + k) as u64);
                vedits.push((format!("output segment {k} cells longer than the rest of the page"), p));
            }
        }
    }
    {
        // rare legal shapes: an output segment of exactly 1 (2) cells whose page cells sit one address
        // too high; foreign cells appended after the output; the output block moved in front of the
        // cells that precede it
        let pc = fu64(&pi0.segments[0].begin_addr).unwrap_or(1);
        let ap = fu64(&pi0.segments[1].begin_addr).unwrap_or(3);
        let prog_len = (ap - 2).saturating_sub(pc) as usize;
        let ob = fu64(&pi0.segments[2].begin_addr).unwrap_or(0);
        let os = fu64(&pi0.segments[2].stop_ptr).unwrap_or(0);
        let n_out = (os.saturating_sub(ob)) as usize;
        for k in [1usize, 2] {
            if n_out >= k && n >= prog_len + k {
                // page = everything before the output block + k cells at addresses ob+1 .. ob+k
                let mut p = clone_pi(pi0);
                p.segments[2].stop_ptr = Felt::from(ob + k as u64);
                p.main_page.0.truncate(n - n_out);
                for j in 0..k {
                    let mut c: swiftness_air::types::AddrValue = serde_json::from_value(serde_json::to_value(&pi0.main_page.0[n - n_out + j]).unwrap()).unwrap();
                    c.address = Felt::from(ob + 1 + j as u64);
                    p.main_page.0.push(c);
                }
                vedits.push((format!("output segment of exactly {k} cell(s), page cells one address too high"), p));
                // the honest k-cell variant (control: must be accepted with the address-based hashes)
                let mut p = clone_pi(pi0);
                p.segments[2].stop_ptr = Felt::from(ob + k as u64);
                p.main_page.0.truncate(n - n_out + k);
                vedits.push((format!("output segment shortened to its first {k} cell(s), page cut accordingly"), p));
            }
        }
        // empty output segment, page cut before the output block
        {
            let mut p = clone_pi(pi0);
            p.segments[2].stop_ptr = p.segments[2].begin_addr;
            p.main_page.0.truncate(n - n_out);
            vedits.push(("empty output segment, page without output cells".to_string(), p));
        }
        // foreign cells after the output block
        for extra in [1usize, 3] {
            let mut p = clone_pi(pi0);
            for j in 0..extra {
                let mut c: swiftness_air::types::AddrValue = serde_json::from_value(serde_json::to_value(&pi0.main_page.0[n - 1]).unwrap()).unwrap();
                c.address = Felt::from(900_000 + j as u64);
                c.value = Felt::from(77 + j as u64);
                p.main_page.0.push(c);
            }
            vedits.push((format!("{extra} foreign cell(s) appended after the output block"), p));
        }
        // the output block rotated in front of the cells that precede it (same cells, other order)
        if n_out >= 1 && n > prog_len + n_out {
            let mut p = clone_pi(pi0);
            let tail: Vec<swiftness_air::types::AddrValue> = p.main_page.0.split_off(n - n_out);
            let mid: Vec<swiftness_air::types::AddrValue> = p.main_page.0.split_off(prog_len);
            p.main_page.0.extend(tail);
            p.main_page.0.extend(mid);
            vedits.push(("output block moved in front of the execution-segment cells".to_string(), p));
        }
    }
    for (l, p) in &vedits {
        check_verify::<L>(rep, lay, p, l, false);
    }
    rep.count("verify.edits", vedits.len() as u64);
    if rep.samples.len() < 3 {
        rep.sample(json!({"layout": lay, "validation_edits": edits.len(), "hash_edits": vedits.len(), "example_validation_edit": edits[edits.len() / 2].0, "example_hash_edit": vedits[vedits.len() / 3].0}));
    }
}

pub fn run(args: &Args) -> Report {
    let seed = args.u64("seed", 1);
    let thorough = args.thorough();
    let repo = args.str("repo", "/repo");
    let base = Rng::new(seed).fork("pubinput");
    let honest = honest_for_build(&repo);
    let mut seen = std::collections::BTreeSet::new();
    let list: Vec<&Honest> = honest.iter().filter(|h| seen.insert(h.layout.clone())).collect();
    let mut total = par_run(n_threads().min(list.len().max(1)), list.len() as u64, |i, rep| {
        let h = list[i as usize];
        let mut rng = base.fork(&h.layout);
        crate::with_layout!(h.layout.as_str(), L, { probe::<L>(h, &mut rng, rep, thorough) });
        rep.inc("layouts_probed");
    });
    total.note("validation: boundary values around every bound (step count, range-check bounds, layout codes, segment count, every builtin's stop pointer at 0 / max / max+1 instances, +-1 cell, stop below begin, wrap-around starts, traces shorter than a row ratio, trace sizes 2^0..2^30); hashes: every main-page cell's address +-1, removal, duplication, swaps, truncations, program/execution/output bounds moved; oracle: real Ok(pair) must equal the address-based Pedersen chains and the oracle must be computable");
    total
}
