//! C01 — a cheating-prover toolkit. Each strategy builds a *complete* proof for a committed trace
//! that violates the AIR (constant columns), cheating in exactly one mechanism and otherwise
//! behaving as a correct prover; the only correct verdict is "not accepted".
//!
//! The forger uses the reference models for everything a prover does (tables, Merkle paths, FRI
//! folding, PoW grinding) and the public verifier code only where an attacker would simply run it
//! (interaction elements, the composition value its openings must hit, and – by black-box probing
//! of `eval_oods_polynomial` – the (column, point) each opening refers to).
use crate::layouts::build_stone;
use crate::tamper::{honest_for_build, Honest};
use crate::trace::{self, Verdict};
use serde_json::json;
use starknet_crypto::Felt;
use std::collections::BTreeMap;
use swiftness_air::domains::StarkDomains;
use swiftness_air::layout::{GenericLayoutTrait, LayoutTrait};
use swiftness_commitment::table::types::{Decommitment as TD, Witness as TW};
use swiftness_commitment::vector::types::Witness as VW;
use swiftness_fri::types::LayerWitness;
use swiftness_stark::queries::generate_queries;
use swiftness_stark::types::StarkProof;
use swiftness_transcript::transcript::Transcript;
use vcommon::fri::{FriParams, FriProof};
use vcommon::guard::{catch, n_threads, par_run};
use vcommon::merkle::{Table, TreeParams};
use vcommon::report::{Args, Report};
use vcommon::sponge::SpongeModel;
use vcommon::{bitrev, fu128, fu64, hex, inv, ntt, pow_u128, root_of_unity, Rng};

#[derive(Clone, Debug)]
pub struct Plan {
    pub strategy: &'static str,
    pub pow_bits: u8,
    pub n_queries: Option<u64>,
    /// log_n_cosets = p - v (heights consistent modulo the field)
    pub blowup_mod_p: Option<u64>,
    /// all FRI sizes (input size, layer heights, last-layer bound) declared larger by the blow-up
    /// exponent, so that the degree bound equals the evaluation-domain size
    pub fri_extra: bool,
    /// the last-layer bound declared larger by the blow-up exponent (degree bound = evaluation-domain
    /// size) and compensated by one surplus trailing FRI step of p - blow-up, so that a sum over the
    /// WHOLE step vector still matches the trace size; every number the verifier folds with is genuine
    pub trailing_step: bool,
    /// claimed openings are free values instead of the committed columns' values
    pub lie_openings: bool,
    /// oods_values carries two extra trailing entries (C(z), 0)
    pub decouple: bool,
    pub last_layer_len_delta: i64,
    pub grind: bool,
    pub falsify_output: bool,
    /// S7: garbage trace/composition commitments; the row answers at the queries are solved after
    /// the fact so that the DEEP function vanishes there
    pub unbound_answers: bool,
    /// S4: garbage FRI layer commitments; one sibling leaf per first-layer coset is solved so that
    /// every fold lands on the all-zero last layer
    pub adaptive_siblings: bool,
    /// the rejection a correct verifier is expected to give (substring of the error debug string)
    pub expect_rejection: &'static str,
}

impl Plan {
    fn base(strategy: &'static str, expect: &'static str) -> Plan {
        Plan {
            strategy, pow_bits: 20, n_queries: None, blowup_mod_p: None, fri_extra: false, trailing_step: false, lie_openings: false, decouple: false,
            last_layer_len_delta: 0, grind: true, falsify_output: false, unbound_answers: false, adaptive_siblings: false, expect_rejection: expect,
        }
    }
}

pub fn plans() -> Vec<Plan> {
    vec![
        Plan::base("S1 bad-trace-honest-rest", "Oods"),
        Plan { decouple: true, ..Plan::base("S2 oods-length-decoupling", "Oods") },
        Plan { decouple: true, falsify_output: true, ..Plan::base("S2 oods-length-decoupling (false output)", "Oods") },
        Plan { lie_openings: true, fri_extra: true, ..Plan::base("S3 fri-domain-larger-than-eval", "Validation") },
        Plan { lie_openings: true, trailing_step: true, ..Plan::base("S11 degree-bound-via-trailing-step", "Validation") },
        Plan { lie_openings: true, blowup_mod_p: Some(2), n_queries: Some(16), ..Plan::base("S5 blowup-mod-p", "Validation") },
        Plan { lie_openings: true, adaptive_siblings: true, ..Plan::base("S4 fri-adaptive-siblings", "Fri") },
        Plan { lie_openings: true, n_queries: Some(0), ..Plan::base("S6 no-queries", "Validation") },
        Plan { lie_openings: true, unbound_answers: true, ..Plan::base("S7 unbound-trace-answers", "Decommit") },
        Plan { lie_openings: true, ..Plan::base("S8 wrong-openings-honest-fri (control)", "Fri") },
        Plan { last_layer_len_delta: 1, ..Plan::base("S9 last-layer-too-long", "") },
        Plan { last_layer_len_delta: -1, ..Plan::base("S9 last-layer-too-short", "") },
        Plan { grind: false, ..Plan::base("S10 pow-not-ground", "POW") },
    ]
}

pub struct Forged {
    pub proof: StarkProof,
    pub security_bits: Felt,
    pub trace_violates_air: bool,
    pub log_domain: u32,
    pub note: String,
}

fn powers(alpha: Felt, n: usize) -> Vec<Felt> {
    let mut v = Vec::with_capacity(n);
    let mut c = Felt::ONE;
    for _ in 0..n {
        v.push(c);
        c *= alpha;
    }
    v
}

/// batch inversion
fn batch_inv(v: &mut [Felt]) {
    let mut acc = Vec::with_capacity(v.len());
    let mut p = Felt::ONE;
    for x in v.iter() {
        acc.push(p);
        p *= *x;
    }
    let mut ip = inv(p);
    for i in (0..v.len()).rev() {
        let x = v[i];
        v[i] = ip * acc[i];
        ip *= x;
    }
}

pub fn forge<L: LayoutTrait + GenericLayoutTrait>(h: &Honest, plan: &Plan, rng: &mut Rng) -> Result<Forged, String> {
    let kind = vcomp::build_hash();
    let mut sp: StarkProof = serde_json::from_value(serde_json::to_value(&h.proof).unwrap()).unwrap();
    // ---- the prover's self-declared configuration
    sp.config.proof_of_work.n_bits = plan.pow_bits;
    if let Some(q) = plan.n_queries {
        sp.config.n_queries = Felt::from(q);
    }
    let t = fu64(&sp.config.log_trace_domain_size).ok_or("t")? as i64;
    let c_honest = fu64(&sp.config.log_n_cosets).ok_or("c")? as i64;
    let c_int: i64 = match plan.blowup_mod_p {
        Some(v) => {
            sp.config.log_n_cosets = Felt::ZERO - Felt::from(v);
            -(v as i64)
        }
        None => c_honest,
    };
    let steps: Vec<u32> = sp.config.fri.fri_step_sizes.iter().map(|s| fu64(s).unwrap() as u32).collect();
    let sum: i64 = steps.iter().map(|s| *s as i64).sum();
    let lb_honest = fu64(&sp.config.fri.log_last_layer_degree_bound).unwrap() as i64;
    let e_real = t + c_int;
    if e_real < sum || e_real > 22 {
        return Err(format!("domain exponent {e_real} not usable"));
    }
    let e = e_real as u32;
    let k: u32 = if plan.fri_extra { c_honest as u32 } else { 0 };
    // extra last-layer bound without extra heights (S11)
    let kb: u32 = if plan.trailing_step { c_honest as u32 } else { k };
    let hf = |x: i64| Felt::from(x as u64);
    {
        let cfg = &mut sp.config;
        for v in [&mut cfg.traces.original.vector, &mut cfg.traces.interaction.vector, &mut cfg.composition.vector] {
            v.height = hf(e_real);
        }
        cfg.fri.log_input_size = hf(e_real + k as i64);
        cfg.fri.log_last_layer_degree_bound = hf(lb_honest + kb as i64);
        if plan.trailing_step {
            cfg.fri.fri_step_sizes.push(Felt::ZERO - Felt::from(c_honest as u64));
        }
        let mut cur = e_real + k as i64;
        for (i, l) in cfg.fri.inner_layers.iter_mut().enumerate() {
            cur -= steps[i + 1] as i64;
            l.vector.height = hf(cur);
        }
    }
    let lb_decl = (lb_honest + kb as i64) as u32;
    if plan.falsify_output {
        if let Some(c) = sp.public_input.main_page.0.last_mut() {
            c.value += Felt::ONE;
        }
    }
    let cfg = &sp.config;
    let n_friendly = fu64(&cfg.n_verifier_friendly_commitment_layers).unwrap_or(u64::MAX);
    let doms = StarkDomains::new(cfg.log_trace_domain_size, cfg.log_n_cosets);
    let n1 = L::get_num_columns_first(&sp.public_input).ok_or("cols")?;
    let n2 = L::get_num_columns_second(&sp.public_input).ok_or("cols")?;
    let ncomp = L::CONSTRAINT_DEGREE;
    // ---- the committed "trace": every column constant (violates the AIR)
    let cols1: Vec<Felt> = (0..n1).map(|_| rng.felt()).collect();
    let cols2: Vec<Felt> = (0..n2).map(|_| rng.felt()).collect();
    let hc: Vec<Felt> = (0..ncomp).map(|_| rng.felt()).collect();
    let tp = TreeParams { height: e, n_friendly, hash: kind };
    let t1 = Table::sparse(tp, n1, cols1.clone(), BTreeMap::new());
    let t2 = Table::sparse(tp, n2, cols2.clone(), BTreeMap::new());
    let t3 = Table::sparse(tp, ncomp, hc.clone(), BTreeMap::new());
    sp.unsent_commitment.traces.original = t1.root();
    sp.unsent_commitment.traces.interaction = t2.root();
    sp.unsent_commitment.composition = t3.root();
    // ---- transcript (the attacker runs the public code)
    let seed = sp.public_input.get_hash(sp.config.n_verifier_friendly_commitment_layers);
    let mut tr = Transcript::new(seed);
    let tc = L::traces_commit(&mut tr, &sp.unsent_commitment.traces, sp.config.traces.clone());
    let alpha = tr.random_felt_to_prover();
    let coefs = powers(alpha, L::N_CONSTRAINTS);
    tr.read_felt_from_prover(&t3.root());
    let z = tr.random_felt_to_prover();
    // ---- black-box probing of the DEEP evaluation: which column and which point each opening uses
    let nm = L::MASK_SIZE + ncomp;
    let ncol = n1 + n2 + ncomp;
    let x0 = rng.felt();
    let ones = vec![Felt::ONE; ncol];
    let ramp: Vec<Felt> = (0..ncol).map(|c| Felt::from(c as u64 + 1)).collect();
    let zeros = vec![Felt::ZERO; nm];
    let mut colof = vec![0usize; nm];
    let mut aof = vec![Felt::ZERO; nm];
    for i in 0..nm {
        let mut unit = vec![Felt::ZERO; nm];
        unit[i] = Felt::ONE;
        let r1 = L::eval_oods_polynomial(&sp.public_input, &ones, &zeros, &unit, &x0, &z, &doms.trace_generator).map_err(|e| format!("{e:?}"))?;
        let r2 = L::eval_oods_polynomial(&sp.public_input, &ramp, &zeros, &unit, &x0, &z, &doms.trace_generator).map_err(|e| format!("{e:?}"))?;
        if r1 == Felt::ZERO {
            return Err(format!("opening {i} reads no column"));
        }
        aof[i] = x0 - inv(r1);
        let ratio = r2 * inv(r1);
        let c = (0..ncol).find(|c| Felt::from(*c as u64 + 1) == ratio).ok_or(format!("opening {i}: cannot identify its column"))?;
        colof[i] = c;
    }
    let all: Vec<Felt> = cols1.iter().chain(cols2.iter()).chain(hc.iter()).cloned().collect();
    let true_open: Vec<Felt> = (0..nm).map(|i| all[colof[i]]).collect();
    let eval_c = |mask: &[Felt]| -> Result<Felt, String> {
        L::eval_composition_polynomial(&tc.interaction_elements, &sp.public_input, mask, &coefs, &z, &doms.trace_domain_size, &doms.trace_generator).map_err(|e| format!("{e:?}"))
    };
    let cz_true = eval_c(&true_open[..L::MASK_SIZE])?;
    let h_true = true_open[L::MASK_SIZE] + true_open[L::MASK_SIZE + 1] * z;
    let trace_violates_air = cz_true != h_true;
    // ---- the openings the prover claims
    let mut oods: Vec<Felt> = if plan.lie_openings {
        let y: Vec<Felt> = (0..L::MASK_SIZE).map(|_| rng.felt()).collect();
        let cz = eval_c(&y)?;
        let mut v = y;
        v.push(cz);
        v.push(Felt::ZERO);
        v
    } else {
        true_open.clone()
    };
    if plan.decouple {
        oods.push(cz_true);
        oods.push(Felt::ZERO);
    }
    sp.unsent_commitment.oods_values = oods.clone();
    tr.read_felt_vector_from_prover(&oods);
    let oods_alpha = tr.random_felt_to_prover();
    let beta = powers(oods_alpha, nm);
    // ---- the DEEP function the verifier will compute at the queries: sum_a B_a / (x - a)
    let mut by_a: Vec<(Felt, Felt)> = vec![];
    for i in 0..nm {
        let num = (all[colof[i]] - oods[i]) * beta[i];
        if num == Felt::ZERO {
            continue;
        }
        match by_a.iter_mut().find(|(a, _)| *a == aof[i]) {
            Some((_, b)) => *b += num,
            None => by_a.push((aof[i], num)),
        }
    }
    by_a.retain(|(_, b)| *b != Felt::ZERO);
    let w = root_of_unity(e);
    let mut sponge = SpongeModel::with_counter(*tr.digest(), *tr.counter());
    let fparams = FriParams { steps: steps.clone(), lb: (e as i64 - sum) as u32, c: 0, n_friendly, hash: kind, extra_height: k };
    let mut note = String::new();
    let fri: Option<FriProof> = if by_a.is_empty() || plan.n_queries == Some(0) || plan.unbound_answers || plan.adaptive_siblings {
        None
    } else {
        // evaluate on the whole domain (natural order), interpolate, FRI-prove honestly
        let n = 1usize << e;
        let threads = n_threads().min(16).max(1);
        let chunk = (n + threads - 1) / threads;
        let mut evals = vec![Felt::ZERO; n];
        std::thread::scope(|s| {
            for (ci, out) in evals.chunks_mut(chunk).enumerate() {
                let by_a = &by_a;
                s.spawn(move || {
                    let start = ci * chunk;
                    let mut x = Felt::THREE * pow_u128(w, start as u128);
                    let mut xs = Vec::with_capacity(out.len());
                    for _ in 0..out.len() {
                        xs.push(x);
                        x *= w;
                    }
                    for (a, b) in by_a {
                        let mut d: Vec<Felt> = xs.iter().map(|x| *x - *a).collect();
                        batch_inv(&mut d);
                        for (o, di) in out.iter_mut().zip(d.iter()) {
                            *o += *b * *di;
                        }
                    }
                });
            }
        });
        // evals[j] = F(3 w^j): as a polynomial in u = x/3 on the subgroup
        let coef = ntt::interpolate(&evals, e);
        note = format!("DEEP function has {} poles", by_a.len());
        Some(FriProof::commit(fparams.clone(), &coef, &mut sponge))
    };
    // zero DEEP function: all-zero layers (level-constant trees)
    let mut zero_tables: Vec<Table> = vec![];
    let mut zero_challenges: Vec<Felt> = vec![];
    let (roots, mut last): (Vec<Felt>, Vec<Felt>) = match &fri {
        Some(f) => (f.roots.clone(), f.last_full.clone()),
        None => {
            let mut roots = vec![];
            for (i, s) in steps[1..].iter().enumerate() {
                let hgt = fparams.layer_height(i) + k;
                // (S4: the first layer's committed rows are garbage - they will not match the leaves sent)
                let fill = if plan.adaptive_siblings && i == 0 { rng.felt() } else { Felt::ZERO };
                let tb = Table::sparse(TreeParams { height: hgt, n_friendly, hash: kind }, 1usize << s, vec![fill; 1usize << s], BTreeMap::new());
                sponge.absorb(&[tb.root()]);
                let e_i = sponge.squeeze();
                zero_challenges.push(e_i);
                roots.push(tb.root());
                zero_tables.push(tb);
            }
            (roots, vec![Felt::ZERO])
        }
    };
    let decl_len = ((1i64 << lb_decl.min(22)) + plan.last_layer_len_delta).max(0) as usize;
    if last.len() > decl_len && last.iter().skip(decl_len).any(|c| *c != Felt::ZERO) {
        note += "; folded DEEP function does not fit the declared last layer (truncated)";
    }
    last.resize(decl_len, Felt::ZERO);
    sp.unsent_commitment.fri.inner_layers = roots;
    sp.unsent_commitment.fri.last_layer_coefficients = last.clone();
    sponge.absorb(&last);
    // ---- proof of work
    let digest = sponge.digest.to_bytes_be();
    let nonce = if plan.grind {
        vcommon::pow::grind(kind, &digest, plan.pow_bits, plan.pow_bits as u32, false, rng.next() >> 8, 1 << 27).ok_or("grinding gave up")?
    } else {
        // a nonce that is NOT good
        vcommon::pow::grind(kind, &digest, plan.pow_bits, 0, true, rng.next(), 1 << 10).unwrap_or(1)
    };
    sp.unsent_commitment.proof_of_work.nonce = nonce;
    sponge.absorb_u64(nonce);
    // ---- queries
    let nq = sp.config.n_queries;
    let eds = doms.eval_domain_size;
    let (d0, c0) = (sponge.digest, sponge.counter);
    let qs = catch(move || {
        let mut t = Transcript::new_with_counter(d0, c0);
        generate_queries(&mut t, nq, eds)
    })
    .map_err(|p| format!("generate_queries panicked: {}", p.msg))?;
    let mut q: Vec<u128> = qs.iter().map(|f| fu128(f).unwrap()).collect();
    q.dedup();
    let w_of = |tb: &Table| -> (TD, TW) {
        let (vals, auth) = tb.open(&q);
        (TD { values: vals }, TW { vector: VW { authentications: auth } })
    };
    let (d1, w1) = w_of(&t1);
    let (d2, w2) = w_of(&t2);
    let (d3, w3) = w_of(&t3);
    sp.witness.traces_decommitment.original = d1;
    sp.witness.traces_decommitment.interaction = d2;
    sp.witness.composition_decommitment = d3;
    sp.witness.traces_witness.original = w1;
    sp.witness.traces_witness.interaction = w2;
    sp.witness.composition_witness = w3;
    let layers: Vec<LayerWitness> = match &fri {
        Some(f) => f
            .open(&q)
            .into_iter()
            .map(|o| LayerWitness { leaves: o.leaves, table_witness: TW { vector: VW { authentications: o.authentications } } })
            .collect(),
        None => {
            let mut cur = q.clone();
            let mut out = vec![];
            for (i, s) in steps[1..].iter().enumerate() {
                let cs = 1u128 << s;
                let mut cosets: Vec<u128> = cur.iter().map(|x| x / cs).collect();
                cosets.dedup();
                let nleaves = cosets.len() * cs as usize - cur.len();
                let (_, auth) = zero_tables[i].open(&cosets);
                out.push(LayerWitness { leaves: vec![Felt::ZERO; nleaves], table_witness: TW { vector: VW { authentications: auth } } });
                cur = cosets;
            }
            out
        }
    };
    sp.witness.fri_witness.layers = layers;
    if plan.unbound_answers {
        // S7: answers at the queried rows chosen after the fact so that the DEEP function is 0 there
        let (mut v1, mut v2, mut v3) = (vec![], vec![], vec![]);
        for qi in &q {
            let x = Felt::THREE * pow_u128(w, bitrev(*qi, e));
            let mut kc = vec![Felt::ZERO; ncol];
            let mut r = Felt::ZERO;
            for i in 0..nm {
                let d = inv(x - aof[i]);
                kc[colof[i]] += beta[i] * d;
                r += beta[i] * oods[i] * d;
            }
            // only the trace answers are free; the composition answers stay the committed ones
            let pivot = (0..n1 + n2).find(|c| kc[*c] != Felt::ZERO).ok_or("no pivot column")?;
            let mut v: Vec<Felt> = (0..ncol).map(|c| if c < n1 + n2 { rng.felt() } else { all[c] }).collect();
            let mut acc = r;
            for c in 0..ncol {
                if c != pivot {
                    acc -= v[c] * kc[c];
                }
            }
            v[pivot] = acc * inv(kc[pivot]);
            v1.extend_from_slice(&v[..n1]);
            v2.extend_from_slice(&v[n1..n1 + n2]);
            v3.extend_from_slice(&v[n1 + n2..]);
        }
        sp.witness.traces_decommitment.original = TD { values: v1 };
        sp.witness.traces_decommitment.interaction = TD { values: v2 };
        let _ = v3;
        note += "; row answers solved so that the DEEP function vanishes at every query";
    }
    if plan.adaptive_siblings {
        // S4: one sibling leaf per first-layer coset solved so that the fold is 0
        let s1 = steps[1];
        let cs = 1u128 << s1;
        let e1 = *zero_challenges.first().ok_or("no FRI layer")?;
        let deep_at = |qi: u128| -> Felt {
            let x = Felt::THREE * pow_u128(w, bitrev(qi, e));
            by_a.iter().fold(Felt::ZERO, |acc, (a, b)| acc + *b * inv(x - *a))
        };
        let mut cosets: Vec<u128> = q.iter().map(|x| x / cs).collect();
        cosets.dedup();
        let mut leaves = vec![];
        for ci in cosets {
            let members: Vec<u128> = (0..cs).map(|j| ci * cs + j).collect();
            let free: Vec<usize> = (0..cs as usize).filter(|j| !q.contains(&members[*j])).collect();
            let jstar = *free.first().ok_or("a first-layer coset is fully queried: nothing to solve")?;
            let base_vals: Vec<Felt> = members.iter().map(|m| if q.contains(m) { deep_at(*m) } else { Felt::ZERO }).collect();
            let x_inv = inv(pow_u128(w, bitrev(ci * cs, e)));
            let fold = |vals: Vec<Felt>| swiftness_fri::formula::fri_formula(vals, e1, x_inv, Felt::from(cs as u64)).map_err(|e| format!("{e:?}"));
            let f0 = fold(base_vals.clone())?;
            let mut one = base_vals.clone();
            one[jstar] = Felt::ONE;
            let f1 = fold(one)?;
            if f1 == f0 {
                return Err("fold does not depend on the free sibling".into());
            }
            let sval = (Felt::ZERO - f0) * inv(f1 - f0);
            for j in free {
                leaves.push(if j == jstar { sval } else { Felt::ZERO });
            }
        }
        sp.witness.fri_witness.layers[0].leaves = leaves;
        note += "; first-layer sibling leaves solved so that every fold is 0";
    }
    let _ = bitrev(0, 1);
    // the caller's security level: what cli/src/main.rs passes (the configuration's own claim)
    let security_bits = sp.config.security_bits();
    Ok(Forged { proof: sp, security_bits, trace_violates_air, log_domain: e, note })
}

pub fn run(args: &Args) -> Report {
    let seed = args.u64("seed", 1);
    let thorough = args.thorough();
    let repo = args.str("repo", "/repo");
    let stone6 = build_stone() == "stone6";
    let base = Rng::new(seed).fork("forge").fork(vcomp::build_hash().name()).fork(build_stone());
    let honest = honest_for_build(&repo);
    let mut total = Report::new();
    if honest.is_empty() {
        total.note("no template proof for this build");
        return total;
    }
    // templates: quick = the two smallest domains; thorough = every honest proof of the build
    let mut order: Vec<usize> = (0..honest.len()).collect();
    let size = |h: &Honest| fu64(&(h.proof.config.log_trace_domain_size + h.proof.config.log_n_cosets)).unwrap_or(99);
    order.sort_by_key(|i| size(&honest[*i]));
    if !thorough {
        order.truncate(2);
    }
    let plans = plans();
    let reps: u64 = if thorough { 3 } else { 1 };
    let mut jobs: Vec<(usize, usize, u64)> = vec![];
    for &hi in &order {
        for pi in 0..plans.len() {
            // the strategies that need the DEEP function on the whole domain are only run on domains
            // up to 2^20 (quick) / 2^22 (thorough)
            let heavy = plans[pi].lie_openings && plans[pi].blowup_mod_p.is_none();
            if heavy && size(&honest[hi]) > if thorough { 22 } else { 20 } {
                continue;
            }
            for r in 0..reps {
                jobs.push((hi, pi, r));
            }
        }
    }
    // heavy jobs parallelise internally; run jobs on a few outer threads
    let outer = (n_threads() / 4).max(1);
    let rep = par_run(outer, jobs.len() as u64, |j, rep| {
        let (hi, pi, r) = jobs[j as usize];
        let h = &honest[hi];
        let plan = &plans[pi];
        let mut rng = base.fork(&format!("{}|{}|{r}", h.name, plan.strategy));
        let forged = catch(|| crate::with_layout!(h.layout.as_str(), L, { forge::<L>(h, plan, &mut rng) }));
        let d = json!({"template": h.name, "layout": h.layout, "strategy": plan.strategy, "repetition": r});
        let f = match forged {
            Ok(Ok(f)) => f,
            Ok(Err(e)) => {
                rep.inc(&format!("forger_gave_up.{}", plan.strategy));
                rep.note(&format!("forger gave up on {} / {}: {e}", h.name, plan.strategy));
                return;
            }
            Err(p) => {
                rep.inc(&format!("forger_gave_up.{}", plan.strategy));
                rep.note(&format!("forger panicked on {} / {}: {}:{} {}", h.name, plan.strategy, p.file, p.line, p.msg));
                return;
            }
        };
        let run = trace::run_verify(&h.layout, &f.proof, f.security_bits, 1_000_000);
        rep.case(&d.to_string(), f.trace_violates_air);
        rep.inc(&format!("attempts.{}", plan.strategy));
        if !f.trace_violates_air {
            rep.inc("trace_satisfied_air_by_chance");
        }
        let stage = match trace::check_trace(&h.layout, &f.proof, &run, stone6) {
            Ok(s) => s.stage,
            Err(e) => {
                rep.violation("C08|trace|forgery-run-breaks-grammar", &e, d.clone());
                "?".into()
            }
        };
        rep.inc(&format!("stage_reached.{}.{stage}", plan.strategy));
        if rep.samples.len() < 6 {
            rep.sample(json!({"forgery": d.clone(), "log_domain": f.log_domain, "verdict": run.verdict.short(), "transcript_stage_reached": stage, "note": f.note}));
        }
        match &run.verdict {
            Verdict::Accepted(a, b) => {
                rep.violation(
                    &format!("C01|accepted|{}", plan.strategy.split(' ').next().unwrap_or("")),
                    &format!("forged proof accepted (strategy {}): committed trace is constant and violates the AIR; returned ({}, {})", plan.strategy, hex(a), hex(b)),
                    json!({"forgery": d, "proof": serde_json::to_value(&f.proof).unwrap()}),
                );
            }
            Verdict::Rejected(e) => {
                rep.inc(&format!("rejected.{}", plan.strategy));
                if !plan.expect_rejection.is_empty() && e.contains(plan.expect_rejection) {
                    rep.inc("rejected_by_the_targeted_check");
                } else {
                    rep.inc(&format!("rejected_elsewhere.{}.{}", plan.strategy, run.verdict.class()));
                }
            }
            Verdict::Panicked(_) => rep.inc(&format!("rejected_by_panic.{}", plan.strategy)),
        }
    });
    total.merge(rep);
    total.note("every forgery commits constant trace/interaction/composition columns (checked: the constraint combination at the OODS point differs from the committed composition), builds honest Merkle openings for them, and cheats in exactly one mechanism; non-trivial = the committed trace violates the AIR");
    total
}
