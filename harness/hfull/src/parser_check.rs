//! C19 — parser and CLI conversion hand the verifier exactly what the file says
//! (differential against the independent StoneLoader over edited proof files).
use crate::load;
use crate::malformed::panic_signature;
use crate::stone;
use serde_json::{json, Value};
use vcommon::guard::{n_threads, par_run};
use vcommon::report::{Args, Report};
use vcommon::Rng;

#[derive(Clone, Copy, PartialEq, Debug)]
enum Mark {
    WellFormed,
    Malformed,
    Unknown,
}

struct FileEdit {
    class: String,
    label: String,
    mark: Mark,
    value: Value,
}

fn ann<'a>(v: &'a mut Value) -> &'a mut Vec<Value> {
    v["annotations"].as_array_mut().unwrap()
}

fn find_line(v: &Value, needle: &str) -> Vec<usize> {
    v["annotations"].as_array().unwrap().iter().enumerate().filter(|(_, l)| l.as_str().map(|s| s.contains(needle)).unwrap_or(false)).map(|(i, _)| i).collect()
}

fn edits_for(base: &Value, rng: &mut Rng, thorough: bool) -> Vec<FileEdit> {
    let mut out: Vec<FileEdit> = vec![];
    let mut push = |class: &str, label: String, mark: Mark, value: Value| out.push(FileEdit { class: class.to_string(), label, mark, value });
    // ---- proof parameters
    let fri_path = ["proof_parameters", "stark", "fri"];
    for (field, vals) in [
        ("n_queries", vec![(json!(1), Mark::WellFormed), (json!(11), Mark::WellFormed), (json!(0), Mark::WellFormed), (json!(4294967295u64), Mark::WellFormed), (json!(4294967296u64), Mark::Malformed), (json!(-1), Mark::Malformed), (json!("10"), Mark::Malformed), (json!(1.5), Mark::Malformed)]),
        ("proof_of_work_bits", vec![(json!(0), Mark::WellFormed), (json!(31), Mark::WellFormed), (json!(255), Mark::WellFormed), (json!(256), Mark::Malformed), (json!(286), Mark::Malformed), (json!(65566), Mark::Malformed), (json!(4294967295u64), Mark::Malformed)]),
        ("last_layer_degree_bound", vec![(json!(1), Mark::Unknown), (json!(3), Mark::Malformed), (json!(0), Mark::Malformed), (json!(96), Mark::Malformed), (json!(2147483648u64), Mark::Unknown)]),
    ] {
        for (val, mark) in vals {
            let mut v = base.clone();
            v[fri_path[0]][fri_path[1]][fri_path[2]][field] = val.clone();
            push(&format!("proof_parameters {field}"), format!("{field} = {val}"), mark, v);
        }
        let mut v = base.clone();
        v[fri_path[0]][fri_path[1]][fri_path[2]].as_object_mut().unwrap().remove(field);
        push(&format!("proof_parameters {field}"), format!("{field} removed"), Mark::Malformed, v);
    }
    for (val, mark) in [(json!(1), Mark::WellFormed), (json!(0), Mark::WellFormed), (json!(16), Mark::WellFormed), (json!(4294967296u64), Mark::Malformed)] {
        let mut v = base.clone();
        v["proof_parameters"]["stark"]["log_n_cosets"] = val.clone();
        push("proof_parameters log_n_cosets", format!("log_n_cosets = {val}"), mark, v);
    }
    for (val, mark) in [(json!(0), Mark::WellFormed), (json!(7), Mark::WellFormed), (json!(4294967296u64), Mark::Malformed)] {
        let mut v = base.clone();
        v["proof_parameters"]["n_verifier_friendly_commitment_layers"] = val.clone();
        push("proof_parameters n_friendly", format!("n_verifier_friendly_commitment_layers = {val}"), mark, v);
    }
    {
        let mut v = base.clone();
        v["proof_parameters"].as_object_mut().unwrap().remove("n_verifier_friendly_commitment_layers");
        push("proof_parameters n_friendly", "n_verifier_friendly_commitment_layers removed (defaults to 0)".into(), Mark::WellFormed, v);
    }
    // step lists
    let steps: Vec<u64> = base["proof_parameters"]["stark"]["fri"]["fri_step_list"].as_array().unwrap().iter().map(|x| x.as_u64().unwrap()).collect();
    let n_layers = steps.len();
    for (lst, mark, why) in [
        (json!([]), Mark::Malformed, "empty"),
        (json!([0, 40]), Mark::Malformed, "step beyond the domain"),
        (json!([0, 33]), Mark::Malformed, "2^step overflows"),
        (json!([30, 1]), Mark::Unknown, "first step 30"),
        // a NON-ZERO first step (every shipped file has 0 there): the verifier refuses it later, but the
        // parser must still hand over the heights the file implies (each layer below the FIRST step too)
        (json!(std::iter::once(1u64).chain(steps[1..].iter().copied()).collect::<Vec<u64>>()), Mark::WellFormed, "first step 1, the rest as in the file"),
        (json!(std::iter::once(3u64).chain(steps[1..].iter().copied()).collect::<Vec<u64>>()), Mark::WellFormed, "first step 3, the rest as in the file"),
        (json!([2, 1, 2]), Mark::WellFormed, "first step 2"),
        (json!(std::iter::once(60u64).chain(steps[1..].iter().copied()).collect::<Vec<u64>>()), Mark::Malformed, "first step beyond the domain"),
    ] {
        let mut v = base.clone();
        v["proof_parameters"]["stark"]["fri"]["fri_step_list"] = lst.clone();
        push("proof_parameters fri_step_list", format!("fri_step_list = {lst} ({why})"), mark, v);
    }
    // a step whose column count 2^step does not fit the verifier's type, inside a domain large enough
    // for the step to be subtracted (two cooperating parameters)
    for (lst, cosets) in [(json!([0, 33]), 60u64), (json!([0, 32]), 40), (json!([0, 40, 2]), 60), (json!([0, 63]), 64)] {
        let mut v = base.clone();
        v["proof_parameters"]["stark"]["fri"]["fri_step_list"] = lst.clone();
        v["proof_parameters"]["stark"]["log_n_cosets"] = json!(cosets);
        push("proof_parameters fri_step_list + log_n_cosets", format!("fri_step_list = {lst}, log_n_cosets = {cosets} (2^step columns not representable)"), Mark::Malformed, v);
    }
    // ---- public input scalars
    for (field, vals) in [
        ("n_steps", vec![(json!(3), Mark::Malformed), (json!(0), Mark::Malformed), (json!(1), Mark::Unknown), (json!(4294967296u64), Mark::Unknown)]),
        ("rc_min", vec![(json!(0), Mark::WellFormed), (json!(65535), Mark::WellFormed), (json!(-5), Mark::Malformed)]),
        ("rc_max", vec![(json!(1), Mark::WellFormed), (json!(70000), Mark::WellFormed)]),
        ("layout", vec![(json!("plain"), Mark::Unknown), (json!("no_such_layout"), Mark::Malformed), (json!(7), Mark::Malformed)]),
    ] {
        for (val, mark) in vals {
            let mut v = base.clone();
            v["public_input"][field] = val.clone();
            push(&format!("public_input {field}"), format!("{field} = {val}"), mark, v);
        }
        let mut v = base.clone();
        v["public_input"].as_object_mut().unwrap().remove(field);
        push(&format!("public_input {field}"), format!("{field} removed"), Mark::Malformed, v);
    }
    // ---- memory segments
    let seg_names: Vec<String> = base["public_input"]["memory_segments"].as_object().unwrap().keys().cloned().collect();
    for name in &seg_names {
        let mut v = base.clone();
        let seg = v["public_input"]["memory_segments"].as_object_mut().unwrap().remove(name).unwrap();
        v["public_input"]["memory_segments"]["no_such_builtin"] = seg.clone();
        push("memory_segments renamed", format!("segment {name} renamed to an unknown name"), Mark::Malformed, v);
        let mut v = base.clone();
        v["public_input"]["memory_segments"][name]["begin_addr"] = json!(12345);
        push("memory_segments bound", format!("segment {name} begin_addr = 12345"), Mark::WellFormed, v);
        let mut v = base.clone();
        v["public_input"]["memory_segments"][name]["stop_ptr"] = json!("0x10");
        push("memory_segments bound", format!("segment {name} stop_ptr is a string"), Mark::Malformed, v);
        let mut v = base.clone();
        v["public_input"]["memory_segments"].as_object_mut().unwrap().remove(name);
        push("memory_segments removed", format!("segment {name} removed"), Mark::WellFormed, v);
    }
    {
        let mut v = base.clone();
        v["public_input"]["memory_segments"]["mul_mod"] = json!({"begin_addr": 77, "stop_ptr": 78});
        v["public_input"]["memory_segments"]["add_mod"] = json!({"begin_addr": 55, "stop_ptr": 56});
        push("memory_segments added", "segments add_mod and mul_mod added (builtin order)".into(), Mark::WellFormed, v);
    }
    // ---- public memory
    let n_mem = base["public_input"]["public_memory"].as_array().unwrap().len();
    let mut cells: Vec<usize> = (0..n_mem).collect();
    rng.shuffle(&mut cells);
    cells.truncate(if thorough { 12 } else { 4 });
    cells.push(0);
    for &i in &cells {
        for (val, mark, what) in [
            (json!("0xZZ"), Mark::Malformed, "bad hex"),
            (json!("0x"), Mark::Malformed, "empty hex"),
            (json!("0xABCDEF"), Mark::WellFormed, "upper-case hex"),
            (json!("0x0"), Mark::WellFormed, "zero"),
            (json!("0x800000000000011000000000000000000000000000000000000000000000001"), Mark::Malformed, "value = p (not a field element)"),
            (json!(5), Mark::Malformed, "number instead of string"),
        ] {
            let mut v = base.clone();
            v["public_input"]["public_memory"][i]["value"] = val.clone();
            push(&format!("public_memory value {what}"), format!("public_memory[{i}].value = {val}"), mark, v);
        }
        let mut v = base.clone();
        v["public_input"]["public_memory"][i]["address"] = json!(999999);
        push("public_memory address", format!("public_memory[{i}].address = 999999"), Mark::WellFormed, v);
        let mut v = base.clone();
        v["public_input"]["public_memory"][i]["page"] = json!(1);
        push("public_memory page", format!("public_memory[{i}] moved to page 1 (not representable: the CLI drops continuous pages)"), Mark::Malformed, v);
        for key in ["page", "address", "value"] {
            let mut v = base.clone();
            v["public_input"]["public_memory"][i].as_object_mut().unwrap().remove(key);
            push("public_memory key removed", format!("public_memory[{i}] without its `{key}` key"), Mark::Malformed, v);
        }
        let mut v = base.clone();
        v["public_input"]["public_memory"].as_array_mut().unwrap().remove(i);
        push("public_memory removed", format!("public_memory[{i}] removed"), Mark::WellFormed, v);
    }
    // continuous-page cells interleaved with the main page (the main page is every page-0 cell, in order)
    if n_mem >= 6 {
        let mut v = base.clone();
        let cell = json!({"address": 777777, "page": 1, "value": "0x5"});
        v["public_input"]["public_memory"].as_array_mut().unwrap().insert(3, cell.clone());
        push("public_memory page", "one page-1 cell inserted at index 3".into(), Mark::Malformed, v);
        let mut v = base.clone();
        v["public_input"]["public_memory"].as_array_mut().unwrap().push(cell.clone());
        push("public_memory page", "one page-1 cell appended".into(), Mark::Malformed, v);
        let mut v = base.clone();
        {
            let a = v["public_input"]["public_memory"].as_array_mut().unwrap();
            a.insert(1, json!({"address": 888888, "page": 2, "value": "0x6"}));
            a.insert(4, cell.clone());
            a.insert(5, json!({"address": 888889, "page": 2, "value": "0x7"}));
        }
        push("public_memory page", "cells of pages 1 and 2 interleaved with the main page".into(), Mark::Malformed, v);
    }
    {
        let mut v = base.clone();
        v["public_input"]["public_memory"] = json!([]);
        push("public_memory empty", "public_memory emptied".into(), Mark::Malformed, v);
        let mut v = base.clone();
        v["public_input"]["public_memory"].as_array_mut().unwrap().swap(0, 1);
        push("public_memory reordered", "first two public memory cells swapped (order and padding cell follow the file)".into(), Mark::WellFormed, v);
    }
    // ---- dynamic params
    if let Some(d) = base["public_input"]["dynamic_params"].as_object() {
        let keys: Vec<String> = d.keys().cloned().collect();
        for _ in 0..(if thorough { 12 } else { 4 }) {
            let k = rng.pick(&keys).clone();
            let mut v = base.clone();
            v["public_input"]["dynamic_params"][&k] = json!(4242);
            push("dynamic_params value", format!("dynamic_params.{k} = 4242"), Mark::WellFormed, v);
            let mut v = base.clone();
            v["public_input"]["dynamic_params"].as_object_mut().unwrap().remove(&k);
            push("dynamic_params removed", format!("dynamic_params.{k} removed"), Mark::Malformed, v);
            let mut v = base.clone();
            let x = v["public_input"]["dynamic_params"].as_object_mut().unwrap().remove(&k).unwrap();
            v["public_input"]["dynamic_params"]["zzz_unknown_param"] = x;
            push("dynamic_params renamed", format!("dynamic_params.{k} renamed to an unknown name"), Mark::Malformed, v);
        }
        // every parameter gets a value of its own: each verifier field must receive ITS file value
        {
            // (the placement parameters only: column / offset / suboffset - the others steer the
            // parser's own size computations and would make the file inconsistent)
            let placement = |k: &String| k.ends_with("_column") || k.ends_with("_offset") || k.ends_with("_suboffset");
            let mut v = base.clone();
            for (j, k) in keys.iter().enumerate().filter(|(_, k)| placement(k)) {
                v["public_input"]["dynamic_params"][k] = json!(1000 + j as u64);
            }
            push("dynamic_params all distinct", "every placement parameter (column / offset / suboffset) set to 1000 + its position".into(), Mark::WellFormed, v);
            let mut v = base.clone();
            for (j, k) in keys.iter().enumerate().filter(|(_, k)| placement(k)) {
                v["public_input"]["dynamic_params"][k] = json!(5000 - 3 * j as u64);
            }
            push("dynamic_params all distinct", "every placement parameter set to 5000 - 3 * its position".into(), Mark::WellFormed, v);
        }
        let mut v = base.clone();
        v["public_input"]["dynamic_params"]["extra_param"] = json!(1);
        push("dynamic_params added", "one unknown dynamic parameter added".into(), Mark::Malformed, v);
    }
    // ---- annotation lines
    let singles = [
        ("Original/Commit on Trace", "original commitment"),
        ("STARK/Interaction/Commit on Trace", "interaction commitment"),
        ("Out Of Domain Sampling/Commit on Trace", "composition commitment"),
        ("Out Of Domain Sampling/OODS values: : Field Elements", "OODS values"),
        ("FRI/Commitment/Last Layer", "last layer"),
        ("FRI/Proof of Work", "nonce"),
    ];
    for (needle, what) in singles {
        let idx = find_line(base, needle);
        if let Some(&i) = idx.first() {
            let mut v = base.clone();
            ann(&mut v).remove(i);
            push("annotation removed (mandatory)", format!("{what} line removed"), Mark::Malformed, v);
            let mut v = base.clone();
            let l = ann(&mut v)[i].clone();
            ann(&mut v).insert(i, l);
            push("annotation duplicated", format!("{what} line duplicated"), Mark::Unknown, v);
            // value altered (still valid hex)
            let mut v = base.clone();
            let s = ann(&mut v)[i].as_str().unwrap().to_string();
            if let Some(p) = s.rfind("(0x") {
                let s2 = format!("{}(0x1{}", &s[..p], &s[p + 4..]);
                ann(&mut v)[i] = json!(s2);
                push("annotation value altered", format!("{what}: first hex digit changed"), Mark::WellFormed, v);
            }
            // bad hex
            let mut v = base.clone();
            if let Some(p) = s.rfind("(0x") {
                let s2 = format!("{}(0xZZ{}", &s[..p], &s[p + 5..]);
                ann(&mut v)[i] = json!(s2);
                push("annotation bad hex", format!("{what}: bad hex in the first value"), Mark::Malformed, v);
            }
        }
    }
    // bad hex in the middle / at the end of a Field Elements list
    for needle in ["OODS values: : Field Elements", "FRI/Commitment/Last Layer"] {
        if let Some(&i) = find_line(base, needle).first() {
            let s = base["annotations"][i].as_str().unwrap().to_string();
            let parts: Vec<&str> = s.split(", ").collect();
            if parts.len() > 4 {
                let mut p2: Vec<String> = parts.iter().map(|x| x.to_string()).collect();
                let k = parts.len() / 2;
                p2[k] = "0xnothex".into();
                let mut v = base.clone();
                ann(&mut v)[i] = json!(p2.join(", "));
                push("annotation bad hex in list", format!("{needle}: element {k} of the list is not hex"), Mark::Malformed, v);
                let mut p3: Vec<String> = parts.iter().map(|x| x.to_string()).collect();
                p3.remove(k);
                let mut v = base.clone();
                ann(&mut v)[i] = json!(p3.join(", "));
                push("annotation list element removed", format!("{needle}: element {k} removed"), Mark::WellFormed, v);
                let mut p4: Vec<String> = parts.iter().map(|x| x.to_string()).collect();
                p4.swap(k, k + 1);
                let mut v = base.clone();
                ann(&mut v)[i] = json!(p4.join(", "));
                push("annotation list reordered", format!("{needle}: elements {k},{} swapped", k + 1), Mark::WellFormed, v);
            }
        }
    }
    // nonce values
    if let Some(&i) = find_line(base, "FRI/Proof of Work").first() {
        let s = base["annotations"][i].as_str().unwrap().to_string();
        let p = s.rfind("Data(").unwrap();
        for (val, mark, what) in [
            ("0x0", Mark::WellFormed, "nonce 0"),
            ("0xffffffffffffffff", Mark::WellFormed, "nonce 2^64-1"),
            ("0x10000000000000000", Mark::Malformed, "nonce 2^64"),
            ("0x1234567890abcdef1234567890abcdef", Mark::Malformed, "128-bit nonce"),
        ] {
            let mut v = base.clone();
            ann(&mut v)[i] = json!(format!("{}Data({val})", &s[..p]));
            push("annotation nonce", what.to_string(), mark, v);
        }
    }
    // FRI layer commitments: removal, renumbering, swap
    let fri_commits = find_line(base, "FRI/Commitment/Layer ");
    let fri_commits: Vec<usize> = fri_commits.into_iter().filter(|i| base["annotations"][*i].as_str().unwrap().starts_with("P->V")).collect();
    if fri_commits.len() >= 2 {
        let mut v = base.clone();
        ann(&mut v).remove(fri_commits[0]);
        push("annotation removed (mandatory)", "first FRI layer commitment removed".into(), Mark::Malformed, v);
        let mut v = base.clone();
        ann(&mut v).swap(fri_commits[0], fri_commits[1]);
        push("annotation FRI commitments swapped", "first two FRI layer commitment lines exchanged (numbering no longer 1,2,..)".into(), Mark::Unknown, v);
        let mut v = base.clone();
        let s = ann(&mut v)[fri_commits[0]].as_str().unwrap().replace("Commitment/Layer 1:", "Commitment/Layer 9:");
        ann(&mut v)[fri_commits[0]] = json!(s);
        push("annotation FRI renumbered", "FRI layer 1 commitment renumbered to 9".into(), Mark::Unknown, v);
    }
    // decommitment lines: removal, swap within class, duplicate, bad hex, injected line
    for (needle, what) in [
        ("Layer 0/Virtual Oracle/Trace 0: Row", "trace 0 leaf"),
        ("Layer 0/Virtual Oracle/Trace 0: For node", "trace 0 authentication node"),
        ("Layer 0/Virtual Oracle/Trace 1: Row", "trace 1 leaf"),
        ("Layer 0/Virtual Oracle/Trace 2: For node", "trace 2 authentication node"),
        ("Decommitment/Layer 1: Row", "FRI layer 1 leaf"),
        ("Decommitment/Layer 1: For node", "FRI layer 1 authentication node"),
        (&format!("Decommitment/Layer {}: For node", n_layers - 1), "last FRI layer authentication node"),
    ] {
        let idx = find_line(base, needle);
        if idx.len() < 3 {
            continue;
        }
        let a = idx[rng.below(idx.len() as u64 - 1) as usize];
        let b = idx[idx.iter().position(|x| *x == a).unwrap() + 1];
        let mut v = base.clone();
        ann(&mut v).remove(a);
        push("annotation decommitment removed", format!("one {what} line removed"), Mark::WellFormed, v);
        let mut v = base.clone();
        ann(&mut v).swap(a, b);
        push("annotation decommitment swapped", format!("two consecutive {what} lines swapped (stream order must be preserved)"), Mark::WellFormed, v);
        let mut v = base.clone();
        let l = ann(&mut v)[a].clone();
        ann(&mut v).insert(a, l);
        push("annotation decommitment duplicated", format!("one {what} line duplicated"), Mark::WellFormed, v);
        let mut v = base.clone();
        let s = ann(&mut v)[a].as_str().unwrap().to_string();
        if let Some(p) = s.rfind("(0x") {
            ann(&mut v)[a] = json!(format!("{}(0xg{}", &s[..p], &s[p + 4..]));
            push("annotation bad hex", format!("{what}: bad hex"), Mark::Malformed, v);
        }
        // first <-> last line of the class
        let mut v = base.clone();
        ann(&mut v).swap(idx[0], *idx.last().unwrap());
        push("annotation decommitment swapped", format!("first and last {what} lines swapped"), Mark::WellFormed, v);
    }
    // a file with 12 FRI layers (two-digit layer numbers): every layer's data must stay with its layer
    {
        let mut v = base.clone();
        v["proof_parameters"]["stark"]["fri"]["fri_step_list"] = json!([0, 1, 1, 1, 1, 1, 1, 1, 1, 1, 1, 1]);
        let lines: Vec<Value> = ann(&mut v)
            .iter()
            .filter(|l| {
                let t = l.as_str().unwrap_or("");
                !(t.starts_with("P->V") && (t.contains("/STARK/FRI/Commitment/Layer ") || (t.contains("/STARK/FRI/Decommitment/Layer ") && !t.contains("/Layer 0/"))))
            })
            .cloned()
            .collect();
        let mut out: Vec<Value> = vec![];
        for l in lines {
            if l.as_str().unwrap_or("").contains("FRI/Commitment/Last Layer") {
                for k in 1..=11 {
                    out.push(json!(format!("P->V[0:32]: /cpu air/STARK/FRI/Commitment/Layer {k}: Commitment: Hash(0x{k:x}c0ffee)")));
                }
            }
            out.push(l);
        }
        for k in 1..=11 {
            out.push(json!(format!("P->V[0:32]: /cpu air/STARK/FRI/Decommitment/Layer {k}: Row {k}, Column 0: Field Element(0x{k:x}0100)")));
            out.push(json!(format!("P->V[0:32]: /cpu air/STARK/FRI/Decommitment/Layer {k}: Row {k}, Column 1: Field Element(0x{k:x}0101)")));
            out.push(json!(format!("P->V[0:32]: /cpu air/STARK/FRI/Decommitment/Layer {k}: For node {}: Hash(0x{k:x}0200)", k + 100)));
        }
        v["annotations"] = Value::Array(out);
        push("annotation 12 FRI layers", "step list and annotations re-written to 12 FRI layers with distinct per-layer data".into(), Mark::WellFormed, v);
    }
    {
        let mut v = base.clone();
        ann(&mut v).insert(5, json!("P->V[0:32]: /some other protocol/STARK/Original/Commit on Trace: Commitment: Hash(0x1234)"));
        ann(&mut v).insert(9, json!("free text that is not a protocol line"));
        push("annotation unrelated line injected", "two unrelated lines injected".into(), Mark::WellFormed, v);
        let mut v = base.clone();
        ann(&mut v).reverse();
        push("annotation all reversed", "whole annotation list reversed".into(), Mark::Unknown, v);
        let mut v = base.clone();
        v.as_object_mut().unwrap().remove("annotations");
        push("annotations missing", "annotations removed".into(), Mark::Malformed, v);
        let mut v = base.clone();
        v["annotations"] = json!([]);
        push("annotations missing", "annotations emptied".into(), Mark::Malformed, v);
    }
    out
}

pub fn run(args: &Args) -> Report {
    let seed = args.u64("seed", 1);
    let thorough = args.thorough();
    let repo = args.str("repo", "/repo");
    let base = Rng::new(seed).fork("parser");
    let mut files = load::shipped(&repo);
    if !thorough {
        // 4 files by seed, always including the dynamic layout
        let mut r = base.fork("pick");
        let dynamic: Vec<load::ProofFile> = files.iter().filter(|f| f.layout == "dynamic").cloned().collect();
        files.retain(|f| f.layout != "dynamic");
        r.shuffle(&mut files);
        files.truncate(3);
        files.extend(dynamic);
    }
    let mut total = par_run(n_threads().min(files.len().max(1)), files.len() as u64, |fi, rep| {
        let f = &files[fi as usize];
        let text = std::fs::read_to_string(&f.path).unwrap();
        let mut rng = base.fork(&f.name);
        // the unedited file
        rep.case(&format!("{}|unchanged", f.name), true);
        match (stone::load(&text).and_then(|l| l.proof().map_err(stone::LoadError::Malformed)), load::repo_pipeline(&text)) {
            (Ok(p), Ok(Ok(p2))) => {
                if p == p2 {
                    rep.inc("shipped_files_equal");
                } else {
                    rep.violation("C19|differs|unchanged shipped file", &format!("{}: parser+CLI output differs from the file contents", f.name), json!({"file": f.name}));
                }
            }
            (l, r) => rep.violation("C19|rejects-wellformed|unchanged shipped file", &format!("{}: loader {:?} / pipeline {:?}", f.name, l.is_ok(), r.map(|x| x.is_ok())), json!({"file": f.name})),
        }
        let basev: Value = serde_json::from_str(&text).unwrap();
        for e in edits_for(&basev, &mut rng, thorough) {
            let t = serde_json::to_string(&e.value).unwrap();
            let oracle = stone::load(&t).and_then(|l| l.proof().map_err(stone::LoadError::Malformed));
            let got = load::repo_pipeline(&t);
            let d = json!({"file": f.name, "edit": e.label, "mark": format!("{:?}", e.mark)});
            rep.case(&d.to_string(), true);
            rep.inc(&format!("edit_class.{}", e.class));
            let outcome = match &got {
                Ok(Ok(_)) => "ok",
                Ok(Err(_)) => "error",
                Err(_) => "panic",
            };
            rep.inc(&format!("mark_{:?}.pipeline_{outcome}", e.mark));
            if rep.samples.len() < 5 && e.mark != Mark::Unknown {
                rep.sample(json!({"edit": d.clone(), "oracle": if oracle.is_ok() { "loads".to_string() } else { format!("{:?}", oracle.as_ref().err().unwrap()) }, "pipeline": outcome}));
            }
            // a panic is never acceptable
            if let Err(p) = &got {
                rep.violation(&format!("C19|{}|{}", panic_signature(p, &repo), e.class), &format!("parser/CLI panicked at {}:{} ({}) [{}]", p.file, p.line, p.msg.chars().take(80).collect::<String>(), e.class), d.clone());
                continue;
            }
            match e.mark {
                Mark::Unknown => {}
                Mark::WellFormed => match (&oracle, &got) {
                    (Ok(p), Ok(Ok(p2))) => {
                        if p != p2 {
                            let pj = serde_json::to_value(p).unwrap();
                            let qj = serde_json::to_value(p2).unwrap();
                            let diff = first_diff(&pj, &qj, String::new()).unwrap_or_default();
                            rep.violation(&format!("C19|differs|{}", e.class), &format!("parser+CLI output differs from what the file says at {diff} [{}]", e.class), json!({"case": d, "first_difference": diff}));
                        } else {
                            rep.inc("wellformed_equal");
                        }
                    }
                    (Ok(_), Ok(Err(er))) => rep.violation(&format!("C19|rejects-wellformed|{}", e.class), &format!("parser/CLI rejected a well-formed file: {} [{}]", er.chars().take(100).collect::<String>(), e.class), d.clone()),
                    (Err(le), _) => {
                        rep.inc("oracle_mark_mismatch");
                        rep.note(&format!("generator marked [{}] well-formed but the independent loader rejects it: {le:?}", e.class));
                    }
                    _ => {}
                },
                Mark::Malformed => {
                    if oracle.is_ok() {
                        rep.inc("oracle_mark_mismatch");
                        rep.note(&format!("generator marked [{}] malformed but the independent loader accepts it", e.class));
                    } else if let (Ok(Ok(p2)), "public_memory page") = (&got, e.class.as_str()) {
                        // known: continuous pages are dropped by the CLI conversion. Beyond that the
                        // main page handed over must still be every page-0 cell of the file, in order.
                        let want: Vec<(starknet_crypto::Felt, starknet_crypto::Felt)> = e.value["public_input"]["public_memory"]
                            .as_array()
                            .unwrap()
                            .iter()
                            .filter(|c| c["page"].as_u64() == Some(0))
                            .map(|c| (starknet_crypto::Felt::from(c["address"].as_u64().unwrap_or(0)), starknet_crypto::Felt::from_hex(c["value"].as_str().unwrap_or("0x0")).unwrap_or_default()))
                            .collect();
                        let have: Vec<(starknet_crypto::Felt, starknet_crypto::Felt)> = p2.public_input.main_page.iter().map(|c| (c.address, c.value)).collect();
                        if want != have {
                            rep.violation("C19|differs|main page of a multi-page file", &format!("the main page handed to the verifier has {} cells, the file lists {} page-0 cells [{}]", have.len(), want.len(), e.label), d.clone());
                        } else {
                            rep.inc("multi_page.main_page_equal");
                            rep.violation(&format!("C19|accepts-malformed|{}", e.class), &format!("parser/CLI silently produced a proof from a malformed / not representable file [{}: {}]", e.class, e.label), d.clone());
                        }
                    } else if let Ok(Ok(_)) = &got {
                        rep.violation(&format!("C19|accepts-malformed|{}", e.class), &format!("parser/CLI silently produced a proof from a malformed / not representable file [{}: {}]", e.class, e.label), d.clone());
                    } else {
                        rep.inc("malformed_rejected");
                    }
                }
            }
        }
    });
    total.note("edits: proof parameters at boundary values, public-input scalars, segments renamed/removed/added, public-memory values (bad/upper-case hex, p), addresses, pages, dynamic parameters renamed/removed/added, annotation lines removed / swapped / duplicated / altered / bad hex / injected, nonce sizes; each edit is marked well-formed (pipeline must equal the independent loader), malformed (pipeline must return an error) or unknown (recorded only)");
    total
}

fn first_diff(a: &Value, b: &Value, path: String) -> Option<String> {
    match (a, b) {
        (Value::Object(x), Value::Object(y)) => {
            for (k, v) in x {
                match y.get(k) {
                    Some(w) => {
                        if let Some(d) = first_diff(v, w, format!("{path}.{k}")) {
                            return Some(d);
                        }
                    }
                    None => return Some(format!("{path}.{k} (missing)")),
                }
            }
            None
        }
        (Value::Array(x), Value::Array(y)) => {
            if x.len() != y.len() {
                return Some(format!("{path} (length {} vs {})", x.len(), y.len()));
            }
            for (i, (v, w)) in x.iter().zip(y.iter()).enumerate() {
                if let Some(d) = first_diff(v, w, format!("{path}[{i}]")) {
                    return Some(d);
                }
            }
            None
        }
        _ => {
            if a != b {
                Some(format!("{path}: file says {a}, verifier got {b}"))
            } else {
                None
            }
        }
    }
}
