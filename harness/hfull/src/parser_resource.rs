//! C17 (parser side) — reading a proof file costs time and memory bounded by the size of the file:
//! no number written in the file (page numbers, addresses, parameters) may be used as an
//! allocation size or loop bound. Same budgets as the verification monitor (resource.rs), with S the
//! size of the edited file. Crash-isolated: an allocation failure under the address-space limit or
//! the CPU watchdog kills the worker and is attributed to the in-flight case by the parent.
use crate::load;
use crate::mutate::Worker;
use crate::resmon;
use serde_json::{json, Value};
use vcommon::report::{Args, Report};
use vcommon::Rng;

fn edits(base: &Value, rng: &mut Rng) -> Vec<(String, String, Value)> {
    let mut out: Vec<(String, String, Value)> = vec![];
    let big: [u64; 9] = [1 << 16, 1 << 22, 4_000_000, 1 << 27, (1 << 31) - 1, 1 << 31, u32::MAX as u64, 1 << 40, (1 << 53) - 1];
    let n_mem = base["public_input"]["public_memory"].as_array().map(|a| a.len()).unwrap_or(0);
    if n_mem > 0 {
        let i = rng.below(n_mem as u64) as usize;
        for &n in &big {
            for (field, class) in [("page", "public_memory page number"), ("address", "public_memory address")] {
                let mut v = base.clone();
                v["public_input"]["public_memory"][i][field] = json!(n);
                out.push((class.to_string(), format!("public_memory[{i}].{field} = {n}"), v));
            }
            // one extra cell on a far page
            let mut v = base.clone();
            v["public_input"]["public_memory"].as_array_mut().unwrap().push(json!({"address": 5, "page": n, "value": "0x1"}));
            out.push(("public_memory page number".to_string(), format!("one cell appended on page {n}"), v));
        }
    }
    for &n in &big {
        for field in ["n_queries", "proof_of_work_bits", "last_layer_degree_bound"] {
            let mut v = base.clone();
            v["proof_parameters"]["stark"]["fri"][field] = json!(n);
            out.push((format!("proof_parameters {field}"), format!("{field} = {n}"), v));
        }
        let mut v = base.clone();
        v["proof_parameters"]["stark"]["log_n_cosets"] = json!(n);
        out.push(("proof_parameters log_n_cosets".into(), format!("log_n_cosets = {n}"), v));
        let mut v = base.clone();
        v["proof_parameters"]["n_verifier_friendly_commitment_layers"] = json!(n);
        out.push(("proof_parameters n_friendly".into(), format!("n_verifier_friendly_commitment_layers = {n}"), v));
        let mut v = base.clone();
        v["proof_parameters"]["stark"]["fri"]["fri_step_list"] = json!([0, n]);
        v["proof_parameters"]["stark"]["log_n_cosets"] = json!(n);
        out.push(("proof_parameters fri_step_list".into(), format!("fri_step_list = [0, {n}], log_n_cosets = {n}"), v));
        for field in ["n_steps", "rc_min", "rc_max"] {
            let mut v = base.clone();
            v["public_input"][field] = json!(n);
            out.push((format!("public_input {field}"), format!("{field} = {n}"), v));
        }
    }
    let segs: Vec<String> = base["public_input"]["memory_segments"].as_object().map(|o| o.keys().cloned().collect()).unwrap_or_default();
    for name in segs.iter().take(3) {
        for &n in &[1u64 << 31, 1 << 40, (1 << 53) - 1] {
            let mut v = base.clone();
            v["public_input"]["memory_segments"][name]["stop_ptr"] = json!(n);
            out.push(("memory_segments bound".into(), format!("segment {name} stop_ptr = {n}"), v));
        }
    }
    if let Some(d) = base["public_input"]["dynamic_params"].as_object() {
        let keys: Vec<String> = d.keys().cloned().collect();
        for _ in 0..6 {
            let k = rng.pick(&keys).clone();
            for &n in &[1u64 << 31, u32::MAX as u64] {
                let mut v = base.clone();
                v["public_input"]["dynamic_params"][&k] = json!(n);
                out.push(("dynamic_params value".into(), format!("dynamic_params.{k} = {n}"), v));
            }
        }
    }
    out
}

pub fn run(args: &Args) -> Report {
    let seed = args.u64("seed", 1);
    let thorough = args.thorough();
    let repo = args.str("repo", "/repo");
    let mut worker = Worker::new(args);
    if args.u64("as_limit_gb", 8) > 0 {
        resmon::set_address_space_limit(args.u64("as_limit_gb", 8) << 30);
    }
    resmon::start_cpu_watchdog(args.u64("cpu_limit_s", 90) as f64);
    let base_rng = Rng::new(seed).fork("parser-resource");
    let mut files = load::shipped(&repo);
    if !thorough {
        let mut r = base_rng.fork("pick");
        let dynamic: Vec<load::ProofFile> = files.iter().filter(|f| f.layout == "dynamic").cloned().collect();
        files.retain(|f| f.layout != "dynamic");
        r.shuffle(&mut files);
        files.truncate(2);
        files.extend(dynamic);
    }
    let mut rep = Report::new();
    let mut idx = 0u64;
    for f in &files {
        let text = std::fs::read_to_string(&f.path).unwrap();
        let basev: Value = serde_json::from_str(&text).unwrap();
        let mut rng = base_rng.fork(&f.name);
        // baseline: the unedited file in this very process
        let c0 = resmon::cpu_time_us();
        let w0 = resmon::window_start();
        let r0 = load::repo_pipeline(&text);
        let w1 = resmon::snap();
        let honest_cpu_us = resmon::cpu_time_us() - c0;
        if !matches!(r0, Ok(Ok(_))) {
            rep.inconclusive(&format!("{}: unedited file not read", f.name));
            continue;
        }
        if worker.shard == 0 {
            rep.count("parser.honest.peak_heap_bytes", (w1.peak - w0.cur) as u64);
            rep.count("parser.honest.cpu_us", honest_cpu_us);
            rep.inc("parser.files");
        }
        let cpu_limit_us = (200 * honest_cpu_us).max(10_000_000);
        for (class, label, v) in edits(&basev, &mut rng) {
            let my = worker.wants(idx);
            idx += 1;
            if !my {
                continue;
            }
            let d = json!({"file": f.name, "edit": label});
            let class = format!("parser {class}");
            if worker.skips(&class) {
                rep.inc("skipped.class_with_established_worker_deaths");
                continue;
            }
            worker.begin(idx - 1, &class, &d.to_string());
            let t = serde_json::to_string(&v).unwrap();
            drop(v);
            let s_bytes = t.len() as u64;
            let c0 = resmon::cpu_time_us();
            let w0 = resmon::window_start();
            let got = load::repo_pipeline(&t);
            let w1 = resmon::snap();
            let cpu = resmon::cpu_time_us() - c0;
            let peak = w1.peak.saturating_sub(w0.cur) as u64;
            let total = w1.total - w0.total;
            rep.case(&d.to_string(), true);
            rep.inc("parser.cases");
            rep.inc(&format!("parser.outcome.{}", match &got { Ok(Ok(_)) => "ok", Ok(Err(_)) => "error_value", Err(_) => "panic" }));
            for (name, val) in [("max.parser.peak_heap_bytes", peak), ("max.parser.total_alloc_bytes", total), ("max.parser.cpu_us", cpu)] {
                let cur = rep.counters.get(name).cloned().unwrap_or(0);
                if val > cur {
                    rep.counters.insert(name.to_string(), val);
                }
            }
            let m = json!({"case": d, "file_bytes": s_bytes, "peak_heap_bytes": peak, "total_alloc_bytes": total, "cpu_us": cpu, "honest_cpu_us": honest_cpu_us});
            if rep.samples.len() < 3 {
                rep.sample(m.clone());
            }
            if peak > 64 * s_bytes + (64 << 20) {
                rep.violation(&format!("C17|parser-peak-heap|{class}"), &format!("reading the file peaked at {peak} bytes of heap for a file of {s_bytes} bytes [{class}]"), m.clone());
            }
            if total > 4096 * s_bytes + (256 << 20) {
                rep.violation(&format!("C17|parser-total-alloc|{class}"), &format!("{total} bytes allocated while reading a file of {s_bytes} bytes [{class}]"), m.clone());
            }
            if cpu > cpu_limit_us {
                rep.violation(&format!("C17|parser-cpu|{class}"), &format!("{cpu} us CPU, more than 200x the unedited file ({honest_cpu_us} us) [{class}]"), m.clone());
            }
            worker.end(idx - 1, &rep);
        }
    }
    rep.note("parser side: page numbers, addresses, proof parameters, public-input scalars, segment bounds and dynamic parameters of shipped files set to 2^16..2^53; budgets: peak heap <= 64S+64MiB, total alloc <= 4096S+256MiB, CPU <= max(10s, 200x unedited)");
    rep
}
