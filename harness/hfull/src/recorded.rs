//! Recorded Stone transcripts: the verifier's challenges against the prover's own V->P log
//! (C08 part 3), recorded PoW triples (C09), query indices vs decommitted rows (C10), the
//! public-input digest reproducing the prover's first challenges (C13), protocol grammar (C08).
use crate::layouts::build_stone;
use crate::load;
use crate::stone;
use crate::trace::{self, Verdict};
use serde_json::json;
use starknet_crypto::Felt;
use swiftness_pow::pow::verify_pow;
use vcommon::guard::catch;
use vcommon::report::{Args, Report};
use vcommon::{big, fu64, hex};

pub fn run(args: &Args) -> Report {
    let repo = args.str("repo", "/repo");
    let mut rep = Report::new();
    let kind = vcomp::build_hash();
    let stone6 = build_stone() == "stone6";
    for f in load::shipped(&repo).into_iter().filter(load::matches_build) {
        let text = std::fs::read_to_string(&f.path).unwrap();
        let loaded = match stone::load(&text) {
            Ok(l) => l,
            Err(e) => {
                rep.inconclusive(&format!("{}: {e:?}", f.name));
                continue;
            }
        };
        let proof = loaded.proof().unwrap();
        let sec = proof.config.security_bits();
        let run = trace::run_verify(&f.layout, &proof, sec, u64::MAX);
        rep.case(&format!("recorded|{}", f.name), true);
        if !run.verdict.accepted() {
            rep.inconclusive(&format!("{} not accepted under its matching build ({}); recorded comparisons skipped (see C03)", f.name, run.verdict.short()));
            continue;
        }
        rep.inc("recorded_proofs");
        rep.count("hook_events", run.events.len() as u64);
        let replay = json!({"file": f.name});
        // protocol grammar + sponge chain
        match trace::check_trace(&f.layout, &proof, &run, stone6) {
            Ok(s) => {
                rep.inc("grammar_ok");
                rep.count("grammar_squeezes", s.squeezes);
                rep.count("grammar_absorbs", s.absorbs);
            }
            Err(e) => {
                rep.violation("C08|trace|honest-run-breaks-grammar", &format!("{}: {e}", f.name), replay.clone());
                rep.violation("C13|recorded|seed-or-grammar", &format!("{}: {e}", f.name), replay.clone());
            }
        }
        // the interaction elements handed to the AIR are exactly the challenges drawn between the two
        // trace commitments: as many fields as challenges, each challenge used once
        {
            use swiftness_air::layout::LayoutTrait;
            use swiftness_transcript::transcript::Transcript;
            use swiftness_transcript::verif::{self as vh, Event};
            let seed = proof.public_input.get_hash(proof.config.n_verifier_friendly_commitment_layers);
            vh::start(u64::MAX);
            let fields_txt: Option<String> = crate::with_layout!(f.layout.as_str(), L, {
                let r = catch(|| {
                    let mut t = Transcript::new(seed);
                    let tc = L::traces_commit(&mut t, &proof.unsent_commitment.traces, proof.config.traces.clone());
                    serde_json::to_string(&tc.interaction_elements).unwrap()
                });
                r.ok()
            });
            let ev = vh::take();
            if let Some(txt) = fields_txt {
                let mut fields: Vec<Felt> = vec![];
                for part in txt.split("\"0x").skip(1) {
                    let hexs: String = part.chars().take_while(|c| c.is_ascii_hexdigit()).collect();
                    fields.push(Felt::from_hex(&format!("0x{hexs}")).unwrap());
                }
                let sqz: Vec<Felt> = ev.iter().filter_map(|e| if let Event::Squeeze { out, .. } = e { Some(*out) } else { None }).collect();
                rep.inc("interaction_elements.structs_checked");
                let mut a = fields.clone();
                a.sort();
                let mut b = sqz.clone();
                b.sort();
                let distinct = { let mut d = a.clone(); d.dedup(); d.len() == a.len() };
                if a != b || !distinct {
                    rep.violation("C08|recorded|interaction-elements-struct", &format!("{}: the {} interaction elements handed to the AIR are not exactly the {} distinct challenges drawn after the original trace commitment", f.name, fields.len(), sqz.len()), replay.clone());
                }
            }
        }
        let sq = trace::squeezed(&run);
        let lg = &loaded.log;
        let mut want: Vec<(String, Felt)> = vec![];
        for (i, v) in lg.interaction_elements.iter().enumerate() {
            want.push((format!("interaction element #{i}"), *v));
        }
        if let Some(v) = lg.constraint_alpha { want.push(("constraint random element".into(), v)); }
        if let Some(v) = lg.oods_point { want.push(("OODS point".into(), v)); }
        if let Some(v) = lg.oods_alpha { want.push(("OODS random element".into(), v)); }
        for (i, v) in lg.fri_eval_points.iter().enumerate() {
            want.push((format!("FRI evaluation point #{i}"), *v));
        }
        if lg.interaction_elements.len() as u64 != trace::n_interaction_elements(&f.layout) || lg.constraint_alpha.is_none() || lg.oods_point.is_none() || lg.oods_alpha.is_none() {
            rep.inconclusive(&format!("{}: prover log incomplete", f.name));
            continue;
        }
        let mut all_eq = true;
        for (k, (name, v)) in want.iter().enumerate() {
            rep.inc("challenges_compared_with_prover_log");
            if sq.get(k) != Some(v) {
                all_eq = false;
                let sig = if k < lg.interaction_elements.len() { "C08|recorded|interaction-element" } else { "C08|recorded|challenge" };
                rep.violation(sig, &format!("{}: verifier's {name} differs from the one the prover logged", f.name), replay.clone());
                if k < lg.interaction_elements.len() {
                    rep.violation("C13|recorded|first-challenges", &format!("{}: seed does not reproduce the prover's {name}", f.name), replay.clone());
                }
            }
        }
        if all_eq {
            rep.inc("recorded_transcripts_equal");
        }
        // queries: raw samples -> (mod 2^128) mod domain ; set equality with the prover's log and rows
        let nq = fu64(&proof.config.n_queries).unwrap() as usize;
        let raw = &sq[want.len()..];
        if raw.len() != nq {
            rep.violation("C10|recorded|query-count", &format!("{}: {} query challenges, n_queries = {nq}", f.name, raw.len()), replay.clone());
        }
        let dom = num_bigint::BigUint::from(1u8) << loaded.log_eval;
        let m128 = num_bigint::BigUint::from(1u8) << 128;
        let mut mine: Vec<u64> = raw.iter().map(|r| u64::try_from((big(r) % &m128) % &dom).unwrap()).collect();
        mine.sort();
        mine.dedup();
        let mut logged = lg.query_indices.clone();
        logged.sort();
        logged.dedup();
        let mut rows = loaded.rows_trace0.clone();
        rows.sort();
        rows.dedup();
        rep.count("query_indices_compared", mine.len() as u64);
        if mine != logged {
            rep.violation("C10|recorded|indices-differ-from-prover-log", &format!("{}: query indices derived from the transcript differ from the prover's log", f.name), replay.clone());
            rep.violation("C08|recorded|query-indices", &format!("{}: query indices differ from the prover's log", f.name), replay.clone());
        } else {
            rep.inc("query_sets_equal_prover_log");
        }
        if mine != rows {
            rep.violation("C10|recorded|indices-differ-from-decommitted-rows", &format!("{}: query indices differ from the rows the prover decommitted", f.name), replay.clone());
        } else {
            rep.inc("query_sets_equal_decommitted_rows");
        }
        // recorded PoW triple
        let nonce = proof.unsent_commitment.proof_of_work.nonce;
        let n_bits = proof.config.proof_of_work.n_bits;
        if let Some(d) = trace::digest_before_nonce(&run, nonce) {
            let db = d.to_bytes_be();
            for (nb, label) in [(n_bits, "recorded"), (n_bits.saturating_add(8), "recorded+8"), (n_bits.saturating_sub(8), "recorded-8")] {
                let want = vcommon::pow::pow_ok(kind, &db, nb, nonce);
                let got = catch(move || verify_pow(db, nb, nonce).is_ok());
                rep.inc(&format!("pow.{label}.{}", if want { "oracle_accept" } else { "oracle_reject" }));
                if got.as_ref().ok() != Some(&want) {
                    rep.violation("C09|recorded|differs-from-oracle", &format!("{}: verify_pow(recorded digest, n_bits={nb}, recorded nonce) = {got:?}, oracle = {want}", f.name), json!({"file": f.name, "digest": hex(&d), "n_bits": nb, "nonce": nonce}));
                }
            }
            if !vcommon::pow::pow_ok(kind, &db, n_bits, nonce) {
                rep.violation("C09|recorded|oracle-rejects-recorded-triple", &format!("{}: the oracle rejects the prover's own nonce", f.name), replay.clone());
            }
            rep.inc("pow_recorded_triples");
            // a nonce the oracle refuses must stop the verifier at the proof-of-work step: an error,
            // and no transcript activity after the last FRI layer was absorbed
            let honest_prefix = run.events.iter().rposition(|e| matches!(e, swiftness_transcript::verif::Event::AbsorbFelt { before, value, .. } if *before == d && *value == Felt::from(nonce))).unwrap_or(0);
            for bad in [nonce.wrapping_add(1), nonce.wrapping_sub(1), 0, u64::MAX, nonce ^ (1 << 63), nonce.swap_bytes()] {
                if bad == nonce || vcommon::pow::pow_ok(kind, &db, n_bits, bad) {
                    continue;
                }
                let mut p2: swiftness_stark::types::StarkProof = serde_json::from_value(serde_json::to_value(&proof).unwrap()).unwrap();
                p2.unsent_commitment.proof_of_work.nonce = bad;
                let r2 = trace::run_verify(&f.layout, &p2, sec, u64::MAX);
                rep.inc("pow.bad_nonce_runs");
                let rp = json!({"file": f.name, "nonce": bad, "n_bits": n_bits, "digest": hex(&d)});
                if r2.verdict.accepted() {
                    rep.violation("C09|recorded|bad-nonce-accepted", &format!("{}: nonce {bad} is refused by the oracle but the proof was accepted", f.name), rp);
                } else if matches!(r2.verdict, Verdict::Rejected(_)) && r2.events.len() != honest_prefix {
                    rep.violation("C09|recorded|bad-nonce-did-not-stop-the-verifier", &format!("{}: nonce {bad} is refused by the oracle, yet the verifier went on ({} transcript events instead of {honest_prefix}; verdict {})", f.name, r2.events.len(), r2.verdict.short()), rp);
                } else {
                    rep.inc("pow.bad_nonce_stopped_at_pow");
                }
            }
            if rep.samples.len() < 3 {
                rep.sample(json!({"file": f.name, "n_bits": n_bits, "nonce": nonce, "digest_before_nonce": hex(&d), "queries": mine.len(), "challenges_equal_prover_log": all_eq}));
            }
        } else {
            rep.violation("C09|recorded|nonce-not-absorbed", &format!("{}: accepted, but the nonce was never absorbed into the transcript", f.name), replay.clone());
        }
        // nonce absorbed before the first query challenge: implied by the grammar check above
        if let Verdict::Accepted(..) = run.verdict {
            rep.inc("accepted_runs_monitored");
        }
    }
    rep
}
