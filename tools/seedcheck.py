#!/usr/bin/env python3
"""Confirm a seeded change and run checks against it.

  seedcheck.py confirm <worktree> <letter>           -> verifies in the scratch worktree that
        (1) change alone: workspace tests pass, (2) change + demo: some test fails,
        (3) demo alone: all tests pass.  Prints a JSON summary.
  seedcheck.py run <patch> <Cxx> [<Cxx> ...] [--tier t] -> applies the patch to /repo, runs the checks,
        restores /repo (git checkout -- . && git clean of nothing), prints which checks fired.
  seedcheck.py keep <worktree> <letter> <id> <property> <json-meta-extra>  -> copies into /verif/seeded/<id>/
"""
import json, os, re, shutil, subprocess, sys, time

ROOT = os.path.dirname(os.path.dirname(os.path.abspath(__file__)))


def sh(cmd, cwd=None, timeout=3600):
    r = subprocess.run(cmd, shell=True, cwd=cwd, capture_output=True, text=True, timeout=timeout)
    return r.returncode, r.stdout + r.stderr


def tests(wt):
    rc, out = sh("cargo test --workspace --offline 2>&1", cwd=wt)
    passed = sum(int(x) for x in re.findall(r"test result: \w+\. (\d+) passed", out))
    failed = sum(int(x) for x in re.findall(r"test result: \w+\. \d+ passed; (\d+) failed", out))
    compile_error = "error[" in out or "could not compile" in out
    return {"rc": rc, "passed": passed, "failed": failed, "compile_error": compile_error, "tail": out[-600:] if rc != 0 else ""}


def clean(wt):
    sh("git checkout -- . && git clean -fdq -e SEEDED -e target", cwd=wt)


def confirm(wt, letter):
    p = os.path.join(wt, "SEEDED", f"{letter}.patch")
    d = os.path.join(wt, "SEEDED", f"{letter}_demo.patch")
    res = {"worktree": wt, "letter": letter}
    clean(wt)
    rc, out = sh(f"git apply {p}", cwd=wt)
    if rc != 0:
        res["error"] = "patch does not apply: " + out[-300:]
        return res
    res["change_alone"] = tests(wt)
    rc, out = sh(f"git apply {d}", cwd=wt)
    if rc != 0:
        res["error"] = "demo does not apply: " + out[-300:]
        clean(wt)
        return res
    res["change_plus_demo"] = tests(wt)
    rc, out = sh(f"git apply -R {p}", cwd=wt)
    res["demo_alone"] = tests(wt)
    clean(wt)
    a, b, c = res["change_alone"], res["change_plus_demo"], res["demo_alone"]
    res["confirmed"] = (a["rc"] == 0 and a["passed"] >= 45 and a["failed"] == 0 and not b["compile_error"] and b["failed"] > 0
                        and c["rc"] == 0 and c["failed"] == 0 and c["passed"] > a["passed"] - 1)
    return res


def run(patch, checks, tier):
    rc, out = sh("git status --porcelain", cwd="/repo")
    if out.strip():
        return {"error": "/repo is not clean: " + out[:200]}
    rc, out = sh(f"git apply {patch}", cwd="/repo")
    if rc != 0:
        return {"error": "patch does not apply to /repo: " + out[-300:]}
    res = {"patch": patch, "tier": tier, "checks": {}}
    try:
        for c in checks:
            t0 = time.time()
            rc, out = sh(f"python3 check.py {c} --tier {tier}", cwd=ROOT, timeout=7200)
            viol = [l for l in out.splitlines() if l.startswith("VIOLATION")]
            det = [l.strip() for l in out.splitlines() if l.strip().startswith("->")]
            inc = [l for l in out.splitlines() if l.startswith("INCONCLUSIVE")]
            res["checks"][c] = {"exit": rc, "violations": len(viol), "first": det[:3], "inconclusive": inc[:2], "wall_s": round(time.time() - t0, 1)}
    finally:
        sh("git checkout -- .", cwd="/repo")
    return res


def main():
    a = sys.argv[1:]
    if a[0] == "confirm":
        print(json.dumps(confirm(a[1], a[2]), indent=1))
    elif a[0] == "run":
        tier = "quick"
        if "--tier" in a:
            i = a.index("--tier")
            tier = a[i + 1]
            a = a[:i] + a[i + 2:]
        print(json.dumps(run(a[1], a[2:], tier), indent=1))
    elif a[0] == "keep":
        wt, letter, sid, prop = a[1], a[2], a[3], a[4]
        extra = json.loads(a[5]) if len(a) > 5 else {}
        dst = os.path.join(ROOT, "seeded", sid)
        os.makedirs(dst, exist_ok=True)
        shutil.copy(os.path.join(wt, "SEEDED", f"{letter}.patch"), os.path.join(dst, "patch.diff"))
        shutil.copy(os.path.join(wt, "SEEDED", f"{letter}_demo.patch"), os.path.join(dst, "demo.patch"))
        if os.path.exists(os.path.join(wt, "SEEDED", "README.md")):
            shutil.copy(os.path.join(wt, "SEEDED", "README.md"), os.path.join(dst, "author_README.md"))
        meta = {"id": sid, "property": prop, "source": "independent sub-agent working from the property text only"}
        meta.update(extra)
        with open(os.path.join(dst, "meta.json"), "w") as f:
            json.dump(meta, f, indent=1)
        print("kept", dst)


if __name__ == "__main__":
    main()
