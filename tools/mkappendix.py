#!/usr/bin/env python3
"""Regenerates the table of DESIGN.md appendix C from seeded/*/meta.json (between the table header
line and the first blank line after it)."""
import glob, json, os, re

ROOT = os.path.dirname(os.path.dirname(os.path.abspath(__file__)))


def key(m):
    mm = re.match(r"C(\d+)-([a-z])", m["id"])
    return (int(mm.group(1)), mm.group(2))


def main():
    metas = []
    for f in glob.glob(os.path.join(ROOT, "seeded", "C*", "meta.json")):
        metas.append(json.load(open(f)))
    metas.sort(key=key)
    rows = ["| id | round | needs, in order to manifest | caught by | first attempt |", "|---|---|---|---|---|"]
    for m in metas:
        cb = "; ".join(f"{c} ({v})" for c, v in m.get("caught_by", {}).items())
        esc = lambda s: str(s).replace("|", "\\|").replace("\n", " ")
        rows.append(f"| {m['id']} | {m.get('round', 1)} | {esc(m.get('needs_to_manifest', ''))} | {esc(cb)} | {esc(m.get('first_attempt', ''))} |")
    p = os.path.join(ROOT, "DESIGN.md")
    s = open(p).read()
    start = s.index("| id | round | needs, in order to manifest |")
    end = s.index("\n\n", start)
    s = s[:start] + "\n".join(rows) + s[end:]
    open(p, "w").write(s)
    print(f"{len(metas)} seeded changes")


if __name__ == "__main__":
    main()
