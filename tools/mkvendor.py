#!/usr/bin/env python3
"""Build /verif/vendor (a cargo *directory source*) from the crates cached in ~/.cargo/registry/cache.

The sandbox has no network and two registry cache directories, neither of which is visible to every
toolchain (see DESIGN.md section 2).  A directory source made from the union of both works with the
stable and nightly toolchains, offline.  Idempotent: existing crate directories are kept.
"""
import glob, hashlib, json, os, sys, tarfile

def main():
    dest = sys.argv[1] if len(sys.argv) > 1 else os.path.join(os.path.dirname(os.path.abspath(__file__)), "..", "vendor")
    dest = os.path.abspath(dest)
    os.makedirs(dest, exist_ok=True)
    home = os.environ.get("CARGO_HOME", os.path.expanduser("~/.cargo"))
    crates = sorted(glob.glob(os.path.join(home, "registry", "cache", "*", "*.crate")))
    if not crates:
        print("mkvendor: no cached crates found under", home, file=sys.stderr)
        return 2
    made = kept = 0
    for path in crates:
        name = os.path.basename(path)[:-len(".crate")]
        out = os.path.join(dest, name)
        if os.path.exists(os.path.join(out, ".cargo-checksum.json")):
            kept += 1
            continue
        with open(path, "rb") as f:
            sha = hashlib.sha256(f.read()).hexdigest()
        with tarfile.open(path, "r:gz") as t:
            try:
                t.extractall(dest, filter="data")
            except TypeError:
                t.extractall(dest)
        if not os.path.isdir(out):
            print("mkvendor: unexpected layout in", path, file=sys.stderr)
            return 2
        with open(os.path.join(out, ".cargo-checksum.json"), "w") as f:
            json.dump({"files": {}, "package": sha}, f)
        made += 1
    print(f"mkvendor: {made} crates unpacked, {kept} kept, into {dest}")
    return 0

if __name__ == "__main__":
    sys.exit(main())
