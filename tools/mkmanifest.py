#!/usr/bin/env python3
"""Regenerate /verif/MANIFEST.json from vlib/spec.py (single source of truth for levels/techniques)."""
import json, os, sys
ROOT = os.path.dirname(os.path.dirname(os.path.abspath(__file__)))
sys.path.insert(0, ROOT)
from vlib import spec

ALL = [f"C{i:02d}" for i in range(1, 20)]
hooks_commits = os.popen("git -C /repo log --format=%h --grep='^verif hook'").read().split()

checks = []
for pid in ALL:
    if pid not in spec.PROPS:
        continue
    p = spec.PROPS[pid]
    checks.append({
        "property_id": pid,
        "quick_cmd": f"python3 check.py {pid} --tier quick",
        "thorough_cmd": f"python3 check.py {pid} --tier thorough",
        "evidence_file": f"evidence/{pid}.json",
        "replay_cmd_template": "python3 check.py --replay {path}",
        "engine": "swiftness-runtime-monitors",
        "level_claimed": {"category": p["level"], "text": p.get("level_text", p["rule"]), "design_ref": f"DESIGN.md section 4 ({pid})"},
        "level_note": "; ".join(p.get("assumptions", [])) or "see DESIGN.md",
        "technique": p["technique"],
    })
na = [{"property_id": pid, "reason": spec.NOT_APPLICABLE.get(pid, "monitor not built yet in this revision of /verif (see DESIGN.md section 4 for the planned runtime monitor)")}
      for pid in ALL if pid not in spec.PROPS]
m = {
    "version": 1,
    "setup_cmd": "python3 check.py setup",
    "hooks": {
        "guard": "cargo feature `verif-hooks` of crate swiftness_transcript (off by default)",
        "enable": "the harness crates under /verif/harness depend on swiftness_transcript with features=[\"verif-hooks\"]; cargo feature unification turns the event log on for every swiftness crate in the harness binaries",
        "baseline_off_cmd": "cd /repo && cargo test --workspace --no-fail-fast --offline",
        "source_commits": hooks_commits,
        "add_only": True,
    },
    "engines": [{
        "name": "swiftness-runtime-monitors",
        "path": "check.py",
        "serves_properties": [c["property_id"] for c in checks],
        "kind_free_text": "runtime monitoring: Rust harness binaries (harness/) drive the real swiftness code with generated, hostile and fault-injected inputs; oracles are independent reference models, a transcript event-log hook, a panic/abort monitor and resource monitors; check.py builds, runs, filters known findings and writes evidence",
    }],
    "checks": checks,
    "not_applicable": na,
    "notes": "Verdicts are three-valued (exit 0 held / 1 VIOLATION / 2 INCONCLUSIVE). VERIF_SEED seeds every random choice. Known findings: known_findings.json.",
}
with open(os.path.join(ROOT, "MANIFEST.json"), "w") as f:
    json.dump(m, f, indent=1)
print("MANIFEST.json:", len(checks), "checks,", len(na), "not_applicable")
