"""Per-property check specifications: legs (harness command x build matrix), evidence texts."""

HASHES = ["keccak_160_lsb", "keccak_248_lsb", "blake2s_160_lsb", "blake2s_248_lsb"]
STONES = ["stone5", "stone6"]

COMP_Q = [(h,) for h in HASHES]  # component builds are cheap (20 s): all four mask/hash variants also in quick
COMP_T = [(h,) for h in HASHES]
# the (hash, stone) builds for which Stone proofs are shipped in examples/proofs
FULL_SHIPPED = [("keccak_160_lsb", "stone5"), ("keccak_160_lsb", "stone6"), ("blake2s_248_lsb", "stone6")]
FULL_ALL = [(h, s) for h in HASHES for s in STONES]
FULL_ONE = [("keccak_160_lsb", "stone5")]
FULL_STONES = [("keccak_160_lsb", "stone5"), ("keccak_160_lsb", "stone6")]

TRUSTED = ["starknet-crypto Poseidon/Pedersen, sha3, blake2, Felt arithmetic and num-bigint are the trusted base shared by oracle and code",
           "the harness binary enables all 7 layout features at once; layouts are independent modules, so Layout-generic code is the code a single-layout build runs"]


def comp(name, cmd, **kw):
    d = {"name": name, "kind": "comp", "cmd": cmd, "builds": {"quick": COMP_Q, "thorough": COMP_T}}
    d.update(kw)
    return d


def tool_leg(name, tool, kind, cmd, builds, **kw):
    """supplementary sanitizer leg (thorough tier only); never needed for a verdict"""
    d = {"name": name, "kind": kind, "cmd": cmd, "tool": tool, "tiers": ("thorough",), "builds": {"quick": [], "thorough": builds}, "timeout": {"thorough": 5400}}
    d.update(kw)
    return d


def full(name, cmd, q=FULL_SHIPPED, t=FULL_ALL, **kw):
    d = {"name": name, "kind": "full", "cmd": cmd, "builds": {"quick": q, "thorough": t}, "repo_arg": True}
    d.update(kw)
    return d


# builds of the two hash variants that have NO shipped proof: the component monitors are run inside the
# full binary as well, where the hash features reach the crates only through the repository's own
# feature wiring (cli -> stark -> air/commitment/fri/pow); the component harness wires them itself
WIRED = [("keccak_248_lsb", "stone5"), ("blake2s_160_lsb", "stone5")]
WIRED_ALL = FULL_SHIPPED + WIRED

PROPS = {}

PROPS["C04"] = {
    "level_text": 'Exhaustive for heights <= 3 (4 thorough) x all friendly counts x all query subsets with every single-position corruption, randomized to height 64 (sparse trees) against an independent Merkle prover; 4 hash builds in thorough, plus a Miri pass.',
    "level": "exploration",
    "technique": "runtime differential monitor: real vector_commitment_decommit vs an independent Merkle prover model, exhaustive small shapes + randomized large/sparse trees + single-position fault injection",
    "rule": "cases = (hash build, height, friendly-layer count, leaf contents, sorted distinct query set[, one corruption]); heights 0..=3 (quick) / 0..=4 (thorough) x n_friendly 0..=h+1 x every non-empty query subset are enumerated, plus random full trees (h<=12) and sparse default-leaf trees (h<=64) with friendly counts up to 2^32, 2^40, 2^63, 2^64-1; a case is non-trivial when the tree has at least one hash layer; distinct = distinct (shape, queries, root, corruption label); leg merkle-wired repeats the workload inside the full binary for the two hash variants without shipped proofs, where the hash feature arrives through the repository's own feature wiring",
    "legs": [comp("merkle", "merkle"), full("merkle-wired", "merkle", q=WIRED, t=WIRED, repo_arg=False, args=["--n", "120"]), tool_leg("miri", "miri", "comp", "mini", [("keccak_160_lsb",), ("blake2s_248_lsb",)], shards=8)],
    "required_counters": ["honest_accepted", "corrupt_rejected", "layers.mixed"],
    "assumptions": TRUSTED[:1] + ["index corruptions are only counted when the corrupted claim is false (sparse trees repeat default leaves)"],
}

PROPS["C05"] = {
    "level_text": 'Randomized differential exploration against an independent table-commitment model over column counts 1..16, 32, 128, heights to 48, all row-hash regimes, with per-cell fault injection and an oracle self-check (non-Montgomery commitment must be rejected).',
    "level": "exploration",
    "technique": "runtime differential monitor: real table_decommit vs an independent table-commitment model (Montgomery rows, row-hash rule), randomized shapes + single-cell fault injection",
    "rule": "cases = (hash build, columns in {1..16,32,128}, height, friendly-layer count on both sides of height+1 and at 2^32..2^64-1, rows, query set[, one corruption]); corruptions: every cell +1/random/+2^200 (<=64 cells sampled per instance), cells swapped across rows / columns, cell removed/appended, all cells / all rows but one removed (the length classes are never sampled away), declared column count changed, commitment built without the Montgomery factor; distinct = distinct (shape, queries, root, corrupted values); leg table-wired: the same inside the full binary for the hash variants without shipped proofs (repository feature wiring)",
    "legs": [comp("table", "table"), full("table-wired", "table", q=WIRED, t=WIRED, args=["--n", "150"]), tool_leg("miri", "miri", "comp", "mini", [("keccak_248_lsb",), ("blake2s_160_lsb",)], shards=8)],
    "required_counters": ["honest_accepted", "corrupt_rejected", "rowhash.single_column_unhashed", "rowhash.row_poseidon", "rowhash.row_masked_hash"],
    "assumptions": TRUSTED[:1],
}

PROPS["C06"] = {
    "level_text": 'Differential exploration: an independent FRI prover (written from the protocol description) must be accepted on thousands of valid configurations, polynomials and query sets; folding identities checked directly on fri_formula / compute_next_layer.',
    "level": "exploration",
    "technique": "runtime differential monitor: an independent coefficient-space FRI prover (NTT, Merkle/table model, sponge model) must be accepted by the real fri_commit/fri_verify; fri_formula/compute_next_layer compared with the polynomial folding identity",
    "rule": "cases = folding identities (coset size 2..16, random polynomial of degree<64, every domain 2^k..2^8, random/0/1 challenge) and honest FRI instances (2..=15 layers, steps 1..=4, last-layer log bound 0..=8, log blow-up 0..=4, friendly count around each layer height, zero/constant/max-degree/random polynomial, polynomials divisible by x^(2^sum of steps) and the single maximal-degree monomial, friendly counts up to 2^64-1, 1..=48 queries with same-coset and whole-coset patterns); every instance's config is first required to pass the real Config::validate; leg fri-wired: the same inside the full binary for the hash variants without shipped proofs; non-trivial = at least 2 layers; configuration sweep (no instance built): 2..=15 layers x step 1..=4 x last-layer log bound 0..=15 x log blow-up 0/1/4/16 (domain <= 2^64) must pass the real Config::validate with the right degree bound",
    "legs": [comp("fri", "fri"), full("fri-wired", "fri", q=WIRED, t=WIRED, args=["--n", "40"])],
    "required_counters": ["honest_accepted", "formula.coset_size_16", "layers.15"],
    "assumptions": TRUSTED[:1],
}

PROPS["C07"] = {
    "level_text": 'Fault enumeration on honest FRI instances: every position of every kind (values, points, leaves, authentication nodes, commitments, challenges, coefficients, lengths) corrupted once; degree >= bound functions must be rejected (probabilistic bound <= queries * 2^-250 stated).',
    "level": "fault_enumeration",
    "technique": "runtime fault-injection monitor: every single-position corruption of honest FRI instances produced by the independent prover model, plus honestly folded functions of degree >= bound, must be rejected by the real fri_commit/fri_verify",
    "rule": "for each honest instance (accepted first): each input value, each query point that is alone in its coset, each sibling leaf, each inner-layer authentication node (altered / dropped), each inner-layer commitment (before and after fri_commit), each FRI evaluation point, each last-layer coefficient, last layer of length 2^b+-1 and 2^(b+-1), a query listed twice with one copy carrying a wrong value (capped per class); a configuration stating one layer fewer than the prover folded (surplus trailing entries kept); high-degree: degree == bound, 2*bound-1, domain-1, random function, last layer truncated (a correct verifier accepts with probability <= queries*2^-250); point/challenge corruptions only on random polynomials, where the fold generically depends on them",
    "legs": [comp("frisound", "frisound")],
    "required_counters": ["honest_accepted", "corrupt_rejected", "high_degree_rejected"],
    "assumptions": TRUSTED[:1] + ["a panic inside fri_commit/fri_verify counts as 'not accepted' here and is reported under C18"],
}

PROPS["C08"] = {
    "level_text": "Online trace checking: (a) random API histories vs the sponge model with metamorphic dependence tests, (b) every verification run's hook trace vs the protocol grammar, (c) recorded Stone transcripts vs the prover's own V->P log.",
    "level": "exploration",
    "technique": "runtime trace monitor: random operation histories on the real Transcript checked against a sponge model (state after every op, every challenge, the hook's event chain) with metamorphic dependence checks",
    "rule": "cases = histories of 1..=64 operations over read_felt / read_felt_vector(0..=300) / read_u64 / squeeze / squeeze_n / new_with_counter from random and extreme seeds; non-trivial = at least one absorb and one squeeze; distinct = distinct (seed, op list); protocol leg: honest proofs, surplus-element variants and sampled mutants against the message grammar, plus the query phase on domains of 2^1..2^10 points (repeated samples are the rule there): exactly n_queries challenges, consecutive counters, digest untouched",
    "legs": [comp("transcript", "transcript", builds={"quick": COMP_Q[:1], "thorough": COMP_Q[:1]}),
             full("recorded", "recorded", t=FULL_SHIPPED),
             full("protocol", "protocol", t=FULL_SHIPPED)],
    "required_counters": ["squeezes_compared", "hook_events", "metamorphic_pairs", "recorded_transcripts_equal", "grammar_ok", "grammar_ok.surplus", "grammar_ok.mutant", "query_phase.runs_with_repeated_samples"],
    "assumptions": TRUSTED[:1],
}

PROPS["C09"] = {
    "level_text": 'Differential exploration with oracle-ground threshold nonces (exactly n-1, n, n+1 zero bits), random triples to n = 128, exhaustive config range, commit atomicity, recorded triples of the shipped proofs.',
    "level": "exploration",
    "technique": "runtime differential monitor: real verify_pow / pow Config::validate / UnsentCommitment::commit vs a leading-zero-bit oracle, with nonces ground by the oracle to exactly n-1, n, n+1 zero bits",
    "rule": "cases = (PoW hash, digest, n_bits, nonce): threshold triples for n in 0..=19 (quick) / 0..=24 (thorough), random triples with n in 0..=128, byte-swapped nonce/digest probes, all 256 config values (exhaustive), commit absorb-order/atomicity histories, cached triples of difficulty 33 (one-off multi-minute grind, committed in profiles/pow_ground.json, re-decided by the oracle at run time); leg pow-wired: the same inside the full binary of the two hash variants without shipped proofs, so that the PoW hash family the REPOSITORY's feature wiring selects is the one compared with the oracle; recorded leg: the shipped proofs' own triples at n_bits and n_bits+-8, and every shipped proof re-run with 6 oracle-refused nonces (nonce+-1, 0, 2^64-1, top bit flipped, byte-swapped): verification must stop at the proof-of-work step (error, no transcript activity after the last FRI layer); non-trivial = decided within 2 bits of the threshold or an acceptance at n>=8",
    "legs": [comp("pow", "pow", args=["--powcache", "/verif/profiles/pow_ground.json"]),
             full("pow-wired", "pow", q=WIRED, t=WIRED, args=["--powcache", "/verif/profiles/pow_ground.json", "--n", "4000"]),
             full("recorded", "recorded", t=FULL_SHIPPED)],
    "required_counters": ["threshold.oracle_accept", "threshold.oracle_reject", "config_values", "commit.good_nonce", "pow_recorded_triples", "pow.bad_nonce_stopped_at_pow", "cache.accepting_triples_at_33_bits_or_more"],
    "assumptions": TRUSTED[:1] + ["acceptance at difficulties above 24 bits is only observed on the recorded Stone proofs (24..32 bits) and on the cached ground triples (33 / 36 bits); finding a preimage IS the proof of work, so difficulties above ~36 bits are out of reach"],
}

PROPS["C03"] = {
    "level_text": 'Exhaustive over the shipped matrix: every honest proof x every layout x every (hash, stone) build, verdict against a build-independent rule, returned hashes against address-based chains, serde round trip, parser equality.',
    "level": "exploration",
    "exhaustive": True,
    "technique": "runtime matrix monitor: every honest proof (25 shipped Stone proofs read by an independent loader + the in-tree fixture) is verified as every layout under every (hash, stone) build; verdicts compared with a build-independent rule, returned hashes with address-based Pedersen chains, serde round trip and parser/CLI equality checked",
    "rule": "cells = (honest proof, layout instantiation, hash build, stone build); the shipped matrix is enumerated completely (quick: the 3 builds that have shipped proofs + keccak_248_lsb/stone5 + blake2s_160_lsb/stone5, thorough: all 8); expected accept iff layout, stone and hash match; reject when layout or stone differ, when the PoW hash family differs or a committed layer is masked under another mask width; otherwise don't-care; every cell is non-trivial",
    "legs": [full("matrix", "matrix", q=FULL_SHIPPED + [("keccak_248_lsb", "stone5"), ("blake2s_160_lsb", "stone5")])],
    "required_counters": ["honest_accepted", "hash_pairs_equal_oracle", "roundtrip_same_verdict", "parser_equal_to_independent_loader"],
    "min_evaluations": {"quick": 900, "thorough": 1400},
    "assumptions": TRUSTED + ["the Stone version of a shipped file is taken from its file name; hash and friendly-layer count from the file contents"],
}

PROPS["C12"] = {
    "level_text": 'Complete enumeration of the 18 721 (t, c) pairs with independent order computations, on the std and the no-std build of swiftness_air.',
    "level": "exploration",
    "exhaustive": True,
    "technique": "runtime exhaustive monitor: StarkDomains::new on all 18721 (t, c) pairs, generator orders checked by independent BigUint exponentiation",
    "rule": "all (log_trace_domain_size, log_n_cosets) with sum in 0..=192; per pair: sizes are the powers of two, g^(2^e) == 1 and g^(2^(e-1)) == -1 for both generators (order exactly 2^e / 2^t), trace_generator == eval_generator^(2^c), the answer is independent of earlier calls; run against swiftness_air built with and without its `std` feature (2 x 18721 evaluations); every pair is distinct and non-trivial",
    "legs": [full("domains", "domains", q=FULL_ONE, t=FULL_ONE),
             {"name": "domains-nostd", "kind": "nostd", "cmd": "domains", "builds": {"quick": FULL_ONE, "thorough": FULL_ONE}}],
    "required_counters": ["nostd_build"],
    "min_evaluations": {"quick": 2 * 18721, "thorough": 2 * 18721},
    "assumptions": TRUSTED[:1],
}

PROPS["C02"] = {
    "level_text": 'Per-position fault enumeration on accepted proofs: every vector deletion and (thorough) every scalar position with 3 replacement values, on all 26 honest proofs under their builds; acceptance of any mutant refutes. Exhaustive over positions, sampled over values.',
    "level": "fault_enumeration",
    "technique": "runtime fault-injection monitor: per-position mutants (value replacement, element deletion) of accepted proofs run through the real StarkProof::verify in crash-isolated workers; acceptance of any mutant is the refuting observation; every run is also checked by the transcript trace monitor",
    "rule": "for each accepted honest proof (quick: one per shipped build chosen by seed; thorough: all 26): every vector loses its first, last and one middle element; every scalar leaf of the serde form (quick: <=14 sampled leaves per position class; thorough: all ~3k leaves) is replaced by 2 (quick) / 3 (thorough) different values out of {+1, -1, flipped bit 0, flipped bit 200, flipped bit 250, random, 0, 1}, consecutive leaves of a class walking through all kinds; configuration numbers always get every kind; a mutant counts only if it deserialises and differs from the original; appended trailing elements are recorded without verdict; distinct = distinct (proof, position, value)",
    "legs": [full("tamper", "tamper", t=FULL_SHIPPED, sharded=True, timeout={"quick": 1500, "thorough": 14000})],
    "required_counters": ["originals_accepted", "mutants_rejected"],
    "min_evaluations": {"quick": 300, "thorough": 20000},
    "assumptions": TRUSTED + ["mutants are verified at the original proof's security level", "a panicking mutant counts as not accepted (panics are C18's subject)"],
}

PROPS["C18"] = {
    "level_text": 'Structural fault enumeration with a panic/abort monitor in crash-isolated workers, bucketed by panic site; supplementary valgrind / ASan legs in the thorough tier.',
    "level": "fault_enumeration",
    "technique": "runtime crash monitor: structural malformations of accepted proofs run through the real StarkProof::verify and the three standalone validation entry points under a panic hook + catch_unwind, in crash-isolated worker processes with an address-space limit and CPU watchdog; panics are bucketed by (file, source line text, message class)",
    "rule": "for each honest proof (quick: one per shipped build; thorough: all 26): every vector truncated to 0/1/len-1, extended, rotated; same-typed vectors swapped; every config / public-input number (and a sample of all other numbers) set to each of {0,1,2^16,2^32,2^40,2^63,2^64-1,2^64,2^128,2^250,p-2,p-1, original + 2^32 / 2^64 / 2^128 / 7*2^248}; 16 typed group edits (hostile value with dependent fields re-declared consistently; a table declared with zero columns and its values emptied; output / program spans of 2^32..2^64-1 cells, alone and paired so that only their sum overflows the machine word; a surplus trailing FRI step; inner-layer table configs dropped / a layer declared without one, the last-layer bound re-declared to match); random pairs and triples of these; a case is non-trivial when the edited proof is well-typed and differs from the original; group page_header: one or two continuous page headers appended (8 sizes from 0 to p-1 x products 1, 0, random, p-1); group one_column: the composition table re-declared with one column, its cells replaced by the row hashes (the decommitment still opens)",
    "legs": [full("malformed", "malformed", t=FULL_SHIPPED, sharded=True, timeout={"quick": 1500, "thorough": 14000}),
             tool_leg("memcheck", "valgrind", "full", "malformed", FULL_ONE, shards=16, of=40),
             tool_leg("asan", "asan", "full", "malformed", FULL_ONE, shards=16, of=16)],
    "required_counters": ["outcome.error_value", "standalone.StarkConfig::validate"],
    "min_evaluations": {"quick": 1000, "thorough": 50000},
    "assumptions": TRUSTED + ["well-typed = deserialises into the verifier's StarkProof type"],
}

PROPS["C10"] = {
    "level_text": "Differential exploration over all domain exponents 1..64 and query counts around the domain size; recorded proofs tie the derived indices to the prover's log and decommitted rows.",
    "level": "exploration",
    "technique": "runtime differential monitor: real generate_queries / queries_to_points vs a sponge-model recomputation (sort+dedup of (Poseidon mod 2^128) mod B, 3*w^bitreverse(i)); recorded Stone proofs: derived indices vs the prover's logged indices and decommitted rows",
    "rule": "cases = (transcript digest, counter, query count n, domain 2^e) for e in 1..=64, n in {1,2,3,7,8,48,64,200,B-1,B,B+1 (<=4096)}, 8 (quick) / 50 (thorough) transcript states each; output must equal the model sequence (hence in range, strictly increasing, at most n long, deterministic), the transcript counter must advance by n; points compared for the first indices plus 0, B/2, B-1 under a random split of e into trace and coset exponents; every case is non-trivial",
    "legs": [full("queries", "queries", q=FULL_ONE, t=FULL_ONE), full("recorded", "recorded", t=FULL_SHIPPED)],
    "required_counters": ["sequence_equals_model", "collisions_observed", "points_compared", "query_sets_equal_prover_log", "query_sets_equal_decommitted_rows"],
    "assumptions": TRUSTED[:1],
}

PROPS["C11"] = {
    "level_text": "Differential exploration against the statement's integer predicate (three-valued) over boundary values of every field, truncations, 9 consistent re-declaration groups, cross products and random pairs, from honest and synthesised seeds.",
    "level": "exploration",
    "technique": "runtime differential monitor: real StarkConfig::validate vs the property's predicate evaluated over arbitrary-precision integers (three-valued: accept / reject / don't-care), on boundary-value, truncation, consistent-re-declaration and pairwise edits of honest and synthesised configurations",
    "rule": "seed configs = honest ones (quick: 4 by seed; thorough: all of the build) + 30 / 500 synthesised valid ones; edits: every numeric field <- {0,1,2,4,5,15..21,47..51,128,129,2^16,2^32,2^40,2^63,2^64-1,2^64,2^128,2^250,p-2,p-1,+-1, original + 2^32 / 2^64 / 3*2^64 / 2^128 / 2^192 / 7*2^248}, every vector truncated to 0/1/len-1 and extended, 16 groups of consistent re-declarations (incl. a surplus trailing FRI step x in {1,2,p-1,p-2,p-4} with the last-layer bound re-declared to match a whole-vector sum; the last 1..3 inner-layer table configs dropped, or one more layer declared without a table config, with the last-layer bound re-declared so that a sum over the PAIRED entries still matches) x their value lists (also judged at their own security level), random pairs; security levels exact, +-1, 0, p-1; every case is non-trivial; distinct = distinct (seed config, edit, level); exponent aliases: every field also at orig + 1*ord(2) and orig + 7*ord(2) (2^x is the same field element; ord(2) computed from the factorisation of p-1)",
    "legs": [full("config", "config", q=FULL_ONE, t=FULL_SHIPPED)],
    "required_counters": ["expected_Accept.accepted", "expected_Reject.rejected", "group.blowup_mod_p", "group.fri_input_only"],
    "assumptions": TRUSTED[:1] + ["constraints the implementation enforces beyond the statement (friendly count of FRI layers, surplus vector elements, 1..=128 column range) are a don't-care region"],
}

PROPS["C01"] = {
    "level_text": "Attack-family exploration: complete forged proofs for AIR-violating traces, one cheating mechanism each (11 strategies incl. the three total breaks found on the original tree), are run through the real verifier; 'held' means every implemented attack was rejected, and the trace monitor shows at which protocol stage. Universal soundness is out of reach of runtime monitoring; this is the strongest executable evidence for the named mechanisms.",
    "level": "exploration",
    "technique": "runtime adversarial monitor: a cheating-prover toolkit builds complete forged proofs (constant, AIR-violating trace; honest Merkle openings; real FRI proving of the resulting DEEP function; ground PoW) that cheat in exactly one mechanism each; acceptance by the real StarkProof::verify is the refuting observation; the transcript trace monitor records how far each run got; a sensitivity monitor checks that the AIR's boundary constraints depend on every statement field the Cairo AIR binds",
    "rule": "forgeries = (template statement/config of an honest proof of the build, strategy, repetition); strategies S1 bad trace/honest rest, S2 OODS length decoupling (also with a falsified output), S3 FRI domain larger than the evaluation domain, S11 degree bound raised to the domain size behind a surplus trailing FRI step of p - blow-up, S5 blow-up exponent p-2, S6 zero queries, S8 wrong openings with honest FRI (control), S9 last-layer length, S10 PoW not ground; a forgery is non-trivial when the harness confirmed that the committed constant trace violates the AIR (constraint combination at the OODS point != committed composition); quick: 2 smallest templates per build, thorough: all templates x 3 repetitions; statement binding (leg stmtbind): per layout, every segment bound, the range-check bounds, the padding cell and sampled main-page cells bumped by one under 2 / 6 random environments - the real eval_composition_polynomial must change for initial/final pc and ap, the first address of every builtin of the layout (dynamic: all switched on), the range-check bounds, the padding cell and every sampled public-memory cell; leg stmtbind also probes the converse: a field the composition evaluation depends on but get_hash does not absorb (the `prod` of a continuous page header) must make validate_public_input or verify_public_input refuse the input, in every layout",
    "legs": [full("forge", "forge", t=FULL_SHIPPED, serial=True, timeout={"quick": 1800, "thorough": 14000}),
             full("dynprofile", "dynprofile", q=[("blake2s_248_lsb", "stone6")], t=[("blake2s_248_lsb", "stone6")], args=["--profile", "/verif/profiles/dynamic_accept.json"]),
             full("stmtbind", "stmtbind", q=FULL_SHIPPED, t=FULL_SHIPPED)],
    "required_counters": ["attempts.S1 bad-trace-honest-rest", "attempts.S2 oods-length-decoupling", "attempts.S3 fri-domain-larger-than-eval", "attempts.S5 blowup-mod-p", "rejected_by_the_targeted_check", "parameters_profiled", "required_fields_probed"],
    "assumptions": TRUSTED + ["soundness against all adversaries is out of reach of any runtime monitor: only the implemented attack families are decided", "the forger learns the mask structure by black-box probing of eval_oods_polynomial"],
}

PROPS["C17"] = {
    "level_text": 'Resource monitoring under hostile numeric values (alone, re-declared consistently, and in cross products): transcript-event budget (hook), heap counters, CPU-time budget, address-space limit, in crash-isolated workers.',
    "level": "exploration",
    "technique": "runtime resource monitor: hostile numeric values (alone and with dependent fields re-declared consistently) run through the real verifier in crash-isolated workers under a transcript-event budget (hook), a counting global allocator, an 8 GiB address-space limit and a CPU-time watchdog; verdicts on logical counters and CPU time only",
    "rule": "bounded restatement: for a proof of S serialised bytes holding N field elements: transcript events <= 64+4N, peak heap <= 64S+64MiB, total allocation <= 4096S+256MiB, CPU <= max(10 s, 200x the honest original measured in the same process); cases = every numeric leaf <- {0,1,2^16,2^32,2^40,2^63,2^64-1,2^64,2^128,2^250,p-2,p-1} (quick: config/public-input scalars + 500 sampled), 16 re-declaration groups x value lists, group x leaf and group x group combinations, program-length x output-length pairs at the machine-word edge; parser side (leg parserres): page numbers, addresses, proof parameters, public-input scalars, segment bounds, dynamic parameters of shipped FILES set to 2^16..2^53, parse + CLI conversion under the same heap / CPU budgets with S the file size; non-trivial = well-typed and different from the original",
    "legs": [full("resource", "resource", t=FULL_SHIPPED, sharded=True, timeout={"quick": 1500, "thorough": 14000}),
             full("parserres", "parserres", q=FULL_ONE, t=FULL_ONE, sharded=True, timeout={"quick": 900, "thorough": 3600})],
    "required_counters": ["honest.events", "outcome.error_value", "parser.cases"],
    "min_evaluations": {"quick": 500, "thorough": 20000},
    "assumptions": TRUSTED + ["unbounded termination is restated as the stated budgets (>= 100x head-room over a size-proportional verifier)", "a parent wall-clock watchdog firing is inconclusive, never a violation"],
}

PROPS["C13"] = {
    "level_text": 'Metamorphic exploration: per seed input, the digests of its whole edit neighbourhood are collected in one set; any collision between different inputs refutes; recorded proofs pin the formula.',
    "level": "exploration",
    "technique": "runtime metamorphic monitor on the real PublicInput::get_hash (all-layouts build and a single-layout build): digests of every single-field change, main-page insertion/deletion/duplication/transposition, segment and page-header edits collected into one collision set per seed input; digest model cross-check; recorded Stone proofs: the digest reproduces the prover's first challenges (transcript hook)",
    "rule": "seeds = honest public inputs of the build (plus the shipped dynamic-layout one in every build) + 24 (quick) / 200 (thorough) random ones (0..=600 cells, 0..=12 segments, 0..=4 page headers, random dynamic parameters for the dynamic layout); variants = every scalar leaf +1 (+2 thorough), friendly-layer count (stone6), main-page insertion / duplication / deletion / adjacent transposition / address-value exchange at every position (<= 40 sampled positions per seed in quick, <= 200 in thorough; on pages above 120 cells thorough draws ~240 of the page's leaves), the friendly-layer count at 0, 1, p-1, 2^8..2^250 and original + 2^8..2^250 (stone6; each also against the digest model), compensating changes, segment / header insertion / deletion / transposition, padding and range-check exchanges, the same object edited in place and hashed again (6 edits per seed, compared with a fresh equal object and the digest model); any two different inputs with equal digests violate; a variant is non-trivial when the changed field is in the statement; leg pihash-single-layout: swiftness_air built with the recursive layout only (no `dynamic` feature, no std): None vs Some(random) vs Some(zeros) dynamic parameters, every dynamic parameter + 1, every scalar, one segment bound, one cell, every page-header field except prod must change the digest",
    "legs": [full("pihash", "pihash", q=FULL_SHIPPED, t=FULL_SHIPPED, timeout={"quick": 1200, "thorough": 5400}), full("recorded", "recorded", t=FULL_SHIPPED),
             {"name": "pihash-single-layout", "kind": "nostd", "cmd": "pistatic", "builds": {"quick": FULL_STONES, "thorough": FULL_STONES}}],
    "required_counters": ["static.none_vs_some", "changed.main_page[*].address", "changed.segments[*].begin_addr", "equal_copies_checked", "recorded_transcripts_equal"],
    "assumptions": TRUSTED[:1] + ["collision-freeness is observed on the enumerated neighbourhoods, not proved for the hash functions"],
}

PROPS["C15"] = {
    "level_text": 'Differential exploration against naive evaluation: all 240 (n_bits, spacing) pairs; thousands of random public memories.',
    "level": "exploration",
    "technique": "runtime differential monitor: real get_diluted_product vs the naive recurrence over all 2^n_bits diluted values; real get_public_memory_product_ratio vs the naive product formula",
    "rule": "diluted: all 240 (n_bits 1..=16, spacing 1..=15) pairs (including every layout's (16,4)) x 4 (quick) / 20 (thorough) (z, alpha) pairs including 0, 1, -1; memory: the honest public memories of the build + 200 / 2000 random ones (0..=300 cells with special values, 0..=3 page headers, column sizes from the exact length to 2^127, random padding cell, pages with repeated / adjacent equal cells); non-trivial: n_bits >= 2, resp. >= 2 cells; every diluted evaluation runs on its own thread and a call that has not returned after 60 s (the recurrence has n_bits <= 16 rounds) is reported",
    "legs": [full("boundary", "boundary", q=FULL_ONE, t=FULL_SHIPPED)],
    "required_counters": ["diluted.layout_parameters_16_4", "memory.real_public_memories", "memory.random_public_memories", "memory.pages_with_adjacent_equal_cells"],
    "assumptions": TRUSTED[:1] + ["n_bits = 0 is outside the closed form's contract (it would not terminate) and is not claimed"],
}

PROPS["C16"] = {
    "level_text": 'Algebraic probing at random points: linearity, unit decomposition, non-vanishing of every coefficient position, per-term dependence, and measured per-builtin membership for the dynamic layout.',
    "level": "exploration",
    "technique": "runtime algebraic probing of the real eval_composition_polynomial / eval_oods_polynomial of all 7 layouts at random points: linearity in the coefficient vector, decomposition into unit-vector evaluations, non-vanishing of every position, per-term dependence of DEEP terms; stark_commit's DEEP coefficient vector checked against the transcript hook",
    "rule": "per layout x 2 (quick) / 6 (thorough) random environments (mask values, point, OODS point, interaction elements from a random transcript, honest public input and domain): additivity, homogeneity, f(c) = sum_i c_i f(e_i) over all N_CONSTRAINTS unit vectors, every f(e_i) != 0 (dynamic: with every builtin flag enabled, and every position active in the shipped instance stays active), and for each of the MASK_SIZE+2 DEEP terms: non-zero, depends on oods_values[i] and on no other opening, depends on exactly one column; dynamic layout: with every `*_column` parameter given a column of its own and the `*_offset` parameters bumped along an 8-bit code, each of the 941 trace-cell terms must read the column and follow the row offset of the SAME cell (and only the 2 composition terms may read an unnamed column); each probed position is one case",
    "legs": [full("coeffs", "coeffs", q=[("keccak_160_lsb", "stone5"), ("blake2s_248_lsb", "stone6")], t=FULL_SHIPPED)],
    "required_counters": ["positions_nonzero.dynamic", "positions_nonzero.recursive", "positions_nonzero.starknet_with_keccak", "stark_commit.coefficient_vectors_checked", "dynamic.deep_terms_pairing_checked"],
    "assumptions": TRUSTED + ["polynomial identities are tested at random points (a non-zero rational function vanishes at a random point with probability ~2^-240)"],
}

PROPS["C14"] = {
    "level_text": 'Differential exploration against an integer predicate (validation) and an address-based hash oracle (returned hashes) over boundary values, cooperating edits and every main-page address perturbation, per layout.',
    "level": "exploration",
    "technique": "runtime differential monitor: real validate_public_input vs the statement's predicate over arbitrary-precision integers (three-valued), and real verify_public_input vs an address-based Pedersen-chain oracle, on boundary-value and address-perturbation edits of each layout's honest public input",
    "rule": "per layout of the build: validation edits = step-count exponents around 79/80, range-check bounds around 0 / 0xffff, every other layout's code, segment count +-1, for every builtin the stop pointer at 0 / max / max+1 instances, +-1 cell, below the start, 2^64 instances, wrap-around start, one instance on a trace shorter than the row ratio, trace sizes 2^0..2^24 (2^30 thorough) with and without the step count following; hash edits = every main-page cell's address +1/-1/+0x1000/+2^32/+2^64/+3*2^64/+2^128, removal, duplication, neighbour and random swaps (<=64 cells sampled in quick), truncations, program/execution/output bounds +-1, +7, +2^40, each of the three segments moved as a whole by +-1, +7, +0x1000, +2^32, +2^64, +2^128 over an untouched page; rule for hashes: a real Ok(pair) must equal the address-based chains and those must be computable; every edit is a distinct non-trivial case; log_n_steps = honest + k*ord(2) for k = 1..=9 (exponent aliases of the step count)",
    "legs": [full("pubinput", "pubinput", q=FULL_SHIPPED, t=FULL_SHIPPED)],
    "required_counters": ["validate.expected_Accept.accepted", "validate.expected_Reject.rejected", "verify.hashes_equal_address_based_oracle", "verify.oracle_fails.rejected"],
    "assumptions": TRUSTED + ["dynamic layout: the autogenerated dynamic-parameter assertions are not part of the statement (don't-care once the listed conjuncts hold)", "an address listed twice with different values is left to the AIR's memory argument: either value is accepted by the hash oracle"],
}

PROPS["C19"] = {
    "level_text": "Differential exploration against an independent Stone-file loader over ~200 classified edits per file, with a panic monitor around the repository's parse + convert pipeline.",
    "level": "exploration",
    "technique": "runtime differential monitor: the repository's proof parser + CLI conversion vs an independent Stone-file loader (plain string splitting, name-based matching) on the shipped files and on ~200 classified edits of each; panic hook around the pipeline",
    "rule": "files: quick = 3 shipped files by seed + the dynamic-layout file, thorough = all 25; edits per file: proof parameters at boundary values (n_queries, proof_of_work_bits incl. 256/286, last_layer_degree_bound, log_n_cosets, n_friendly, step lists, steps of 32..63 inside a re-declared 2^60 domain), public-input scalars, every segment renamed/rebound/removed and new segments added, public-memory values (bad, empty, upper-case hex, p), addresses, pages (a cell moved to page 1, page-1/2 cells inserted / appended / interleaved: the main page handed over must be every page-0 cell in order), removal, reordering, dynamic parameters changed/removed/renamed/added, annotation lines per class removed / swapped / duplicated / altered / with bad hex / injected, list elements removed / swapped, nonce 0 / 2^64-1 / 2^64 / 128-bit; each edit is marked well-formed (pipeline output must equal the loader's), malformed or not representable (pipeline must return an error) or unknown (recorded); a panic is a violation for every mark; fri_step_list with a non-zero first step (1, 3, 2 and one beyond the domain)",
    "legs": [full("parser", "parser", q=FULL_ONE, t=FULL_ONE)],
    "required_counters": ["shipped_files_equal", "wellformed_equal", "malformed_rejected"],
    "assumptions": TRUSTED[:1] + ["cli/src/main.rs itself cannot be built offline (clap); its three-call pipeline parse -> transform_to is what is executed", "the loader's reading of the Stone file format (segment order, double-underscore parameter names) was validated on the 25 shipped files"],
}

NOT_APPLICABLE = {}
