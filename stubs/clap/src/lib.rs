// intentionally empty, see Cargo.toml
