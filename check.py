#!/usr/bin/env python3
"""Orchestrator of the runtime monitors:  check.py <Cxx> [--tier quick|thorough] [--replay file]

Rebuilds the harness binaries against /repo's current working tree, runs the legs of the check,
filters violations through /verif/known_findings.json, writes /verif/evidence/<id>.json and prints

  VIOLATION property=<id> replay=<path>      (exit 1)   for every violation that is not a listed finding
  KNOWN-FINDING: property=<id> <what>        (exit 0)   for every listed (status "known") finding that fired
  INCONCLUSIVE property=<id> reason=...      (exit 2)   build failure, watchdog, nothing observed

Verdicts are three-valued; a watchdog or a build problem is never reported as a violation.
"""
import json, os, subprocess, sys, time, hashlib, shutil, signal, fcntl, re
from concurrent.futures import ThreadPoolExecutor

ROOT = os.path.dirname(os.path.abspath(__file__))
sys.path.insert(0, ROOT)
from vlib import spec  # noqa: E402

HARNESS = os.path.join(ROOT, "harness")
TARGET = os.path.join(ROOT, "target")
OUT = os.path.join(ROOT, "out")
EVID = os.path.join(ROOT, "evidence")
KNOWN = os.path.join(ROOT, "known_findings.json")
NCPU = os.cpu_count() or 4


def log(*a):
    print(*a, file=sys.stderr, flush=True)


def cargo_env():
    e = dict(os.environ)
    e["CARGO_NET_OFFLINE"] = "true"
    e.setdefault("RUSTUP_TOOLCHAIN", "stable")
    e.pop("RUSTFLAGS", None)
    return e


def ensure_vendor():
    if not os.path.isdir(os.path.join(ROOT, "vendor", "starknet-crypto-0.7.1")):
        r = subprocess.run([sys.executable, os.path.join(ROOT, "tools", "mkvendor.py")], capture_output=True, text=True)
        if r.returncode != 0:
            raise BuildError("mkvendor failed: " + r.stderr[-400:])


class BuildError(Exception):
    pass


PKG = {"comp": "hcomp", "full": "hfull", "nostd": "hnostd"}


def build_dir(kind, build):
    return os.path.join(TARGET, kind + "-" + "-".join(build))


def binary(kind, build):
    return os.path.join(build_dir(kind, build), "release", PKG[kind])


def build(kind, build_, jobs=None):
    """cargo build one harness variant against /repo's working tree (incremental)."""
    ensure_vendor()
    tdir = build_dir(kind, build_)
    os.makedirs(tdir, exist_ok=True)
    pkg = PKG[kind]
    cmd = ["cargo", "build", "--release", "--offline", "-p", pkg, "--features", ",".join(build_), "--target-dir", tdir]
    if jobs:
        cmd += ["-j", str(jobs)]
    lock = open(os.path.join(tdir, ".verif-build.lock"), "w")
    fcntl.flock(lock, fcntl.LOCK_EX)
    try:
        t0 = time.time()
        r = subprocess.run(cmd, cwd=HARNESS, env=cargo_env(), capture_output=True, text=True)
        if r.returncode != 0:
            raise BuildError(f"cargo build {pkg} {build_} failed:\n" + r.stderr[-3000:])
        log(f"[build] {pkg} {'-'.join(build_)} ok in {time.time()-t0:.1f}s")
    finally:
        fcntl.flock(lock, fcntl.LOCK_UN)
        lock.close()
    return binary(kind, build_)


def build_many(items, max_parallel=None):
    """items: list of (kind, build). Builds in parallel; returns dict -> path or BuildError."""
    items = list(dict.fromkeys(items))
    if not items:
        return {}
    par = max_parallel or min(len(items), 5)
    jobs = max(2, NCPU // par)
    res = {}
    with ThreadPoolExecutor(par) as ex:
        futs = {ex.submit(build, k, b, jobs): (k, b) for k, b in items}
        for f, key in futs.items():
            try:
                res[key] = f.result()
            except BuildError as e:
                res[key] = e
    return res


def load_known():
    if not os.path.exists(KNOWN):
        return []
    with open(KNOWN) as f:
        return json.load(f).get("findings", [])


def run_proc(cmd, timeout, env=None, cwd=None):
    """returns (returncode or None on watchdog, stdout, stderr)"""
    try:
        p = subprocess.Popen(cmd, stdout=subprocess.PIPE, stderr=subprocess.PIPE, text=True, env=env, cwd=cwd,
                             start_new_session=True)
        try:
            o, e = p.communicate(timeout=timeout)
            return p.returncode, o, e
        except subprocess.TimeoutExpired:
            try:
                os.killpg(p.pid, signal.SIGKILL)
            except Exception:
                pass
            o, e = p.communicate()
            return None, o, e
    except FileNotFoundError as ex:
        return -127, "", str(ex)


class LegResult:
    def __init__(self, name):
        self.name = name
        self.reports = []      # parsed harness reports
        self.inconclusive = []  # reasons
        self.extra_violations = []  # synthesized (crashes)


def run_leg_simple(pid, leg, build_, binpath, seed, tier, outdir):
    """one harness process (internally threaded)"""
    res = LegResult(leg["name"])
    tag = f"{leg['name']}-{'-'.join(build_)}"
    out = os.path.join(outdir, f"{tag}.json")
    if os.path.exists(out):
        os.remove(out)
    cmd = [binpath, leg["cmd"], "--seed", str(seed), "--tier", tier, "--out", out] + [str(a) for a in leg.get("args", [])]
    if leg.get("repo_arg"):
        cmd += ["--repo", "/repo"]
    timeout = leg.get("timeout", {}).get(tier, 1800)
    t0 = time.time()
    rc, o, e = run_proc(cmd, timeout)
    dt = time.time() - t0
    if rc is None:
        res.inconclusive.append(f"{tag}: wall-clock watchdog ({timeout}s) fired")
        return res
    if rc != 0 or not os.path.exists(out):
        res.inconclusive.append(f"{tag}: harness exited {rc}: {e[-600:]}")
        return res
    with open(out) as f:
        rep = json.load(f)
    rep["_leg"] = leg["name"]
    rep["_build"] = "-".join(build_)
    rep["_cmd"] = " ".join(cmd)
    rep["_wall_s"] = round(dt, 2)
    res.reports.append(rep)
    return res


def run_leg_sharded(pid, leg, build_, binpath, seed, tier, outdir):
    """crash-isolated workers: N processes, each handling cases idx % N == shard; a worker that
    dies is attributed to its in-flight case and restarted after it."""
    res = LegResult(leg["name"])
    n = leg.get("shards", NCPU)
    timeout = leg.get("timeout", {}).get(tier, 3600)
    deadline = time.time() + timeout

    def worker(shard):
        reports, crashes, incon = [], [], []
        resume = 0
        attempt = 0
        while True:
            tag = f"{leg['name']}-{'-'.join(build_)}-s{shard}-a{attempt}"
            out = os.path.join(outdir, f"{tag}.json")
            prog = os.path.join(outdir, f"{tag}.progress")
            for p in (out, prog, out + ".partial"):
                if os.path.exists(p):
                    os.remove(p)
            cmd = [binpath, leg["cmd"], "--seed", str(seed), "--tier", tier, "--out", out, "--shard", str(shard),
                   "--nshards", str(n), "--resume", str(resume), "--progress", prog] + [str(a) for a in leg.get("args", [])]
            # classes with two attributed worker deaths in this shard are established violations: the
            # worker skips further cases of them (each death costs a whole watchdog period)
            dead = {}
            for c in crashes:
                dead[c["case_class"]] = dead.get(c["case_class"], 0) + 1
            skip = [k for k, v in dead.items() if v >= 2 and k]
            if skip:
                cmd += ["--skip_classes", "||".join(skip)]
            if leg.get("repo_arg"):
                cmd += ["--repo", "/repo"]
            remaining = deadline - time.time()
            if remaining <= 0:
                incon.append(f"{tag}: leg deadline reached")
                break
            env = dict(os.environ)
            env["VERIF_THREADS"] = "1"
            rc, o, e = run_proc(cmd, remaining, env=env)
            if rc == 0 and os.path.exists(out):
                with open(out) as f:
                    rep = json.load(f)
                rep["_leg"], rep["_build"], rep["_cmd"] = leg["name"], "-".join(build_), " ".join(cmd)
                reports.append(rep)
                break
            if rc is None:
                incon.append(f"{tag}: wall-clock watchdog fired")
                break
            # died: find the in-flight case
            inflight, partial = None, None
            if os.path.exists(prog):
                with open(prog) as f:
                    lines = f.read().splitlines()
                begun = [l for l in lines if l.startswith("BEGIN ")]
                ended = {l.split()[1] for l in lines if l.startswith("END ")}
                if begun:
                    last = begun[-1].split(" ", 2)
                    if last[1] not in ended:
                        rest = last[2] if len(last) > 2 else ""
                        cls, _, desc = rest.partition("\t")
                        inflight = (int(last[1]), desc or cls, cls)
                # partial report checkpoint
                pr = out + ".partial"
                if os.path.exists(pr):
                    try:
                        with open(pr) as f:
                            partial = json.load(f)
                    except Exception:
                        partial = None
            if inflight is None:
                incon.append(f"{tag}: worker exited {rc} with no in-flight case: {e[-300:]}")
                break
            if partial is not None:
                partial["_leg"], partial["_build"], partial["_cmd"] = leg["name"], "-".join(build_), " ".join(cmd)
                reports.append(partial)
            crashes.append({"case_index": inflight[0], "case": inflight[1], "case_class": inflight[2], "rc": rc, "stderr": e[-800:], "cmd": " ".join(cmd), "build": "-".join(build_)})
            resume = inflight[0] + 1
            attempt += 1
            if attempt > 200:
                incon.append(f"{tag}: too many worker crashes")
                break
        return reports, crashes, incon

    with ThreadPoolExecutor(n) as ex:
        for reports, crashes, incon in ex.map(worker, range(n)):
            res.reports += reports
            res.inconclusive += incon
            for c in crashes:
                res.extra_violations.append(c)
    return res



def run_leg_tool(pid, leg, build_, binpath, seed, tier, outdir):
    """supplementary sanitizer legs: valgrind memcheck / ASan build / Miri over sharded workloads.
    A tool report is a violation; a tool that cannot be run is recorded as 'not run' and does not
    affect the verdict."""
    res = LegResult(leg["name"])
    tool = leg["tool"]
    shards = leg.get("shards", 16)
    of = leg.get("of", shards)
    timeout = leg.get("timeout", {}).get(tier, 3600)
    notes = []
    asan_bin = None
    if tool == "asan":
        tdir = os.path.join(TARGET, "asan")
        env = cargo_env()
        env["RUSTFLAGS"] = "-Zsanitizer=address -Cforce-frame-pointers=yes"
        env["RUSTUP_TOOLCHAIN"] = "nightly"
        cmd = ["cargo", "build", "--release", "--offline", "-p", "hfull", "--features", ",".join(build_),
               "--target", "x86_64-unknown-linux-gnu", "--target-dir", tdir]
        r = subprocess.run(cmd, cwd=HARNESS, env=env, capture_output=True, text=True)
        if r.returncode != 0:
            res.reports.append({"evaluations": 0, "counters": {f"{tool}.not_run": 1}, "notes": [f"{tool} leg not run: build failed: {r.stderr[-300:]}"], "_build": "-".join(build_)})
            return res
        asan_bin = os.path.join(tdir, "x86_64-unknown-linux-gnu", "release", "hfull")

    def one(shard):
        tag = f"{leg['name']}-{'-'.join(build_)}-s{shard}"
        out = os.path.join(outdir, f"{tag}.json")
        if os.path.exists(out):
            os.remove(out)
        args = [leg["cmd"], "--seed", str(seed), "--tier", "quick", "--out", out, "--shard", str(shard), "--nshards", str(of),
                "--as_limit_gb", "0", "--repo", "/repo"] + [str(a) for a in leg.get("args", [])]
        env = dict(os.environ)
        env["VERIF_THREADS"] = "1"
        cwd = None
        if tool == "valgrind":
            cmd = ["valgrind", "-q", "--error-exitcode=9", "--leak-check=no", binpath] + args
        elif tool == "asan":
            env["ASAN_OPTIONS"] = "halt_on_error=1:abort_on_error=0:detect_leaks=0:exitcode=9"
            cmd = [asan_bin] + args
        elif tool == "miri":
            env.update(cargo_env())
            env["RUSTUP_TOOLCHAIN"] = "nightly"
            env["MIRIFLAGS"] = "-Zmiri-disable-isolation"
            cwd = HARNESS
            cmd = ["cargo", "miri", "run", "--offline", "-p", "hcomp", "--features", ",".join(build_), "--target-dir", os.path.join(TARGET, "miri"), "--"] + args
        else:
            return None, f"unknown tool {tool}", None
        rc, o, e = run_proc(cmd, timeout, env=env, cwd=cwd)
        rep = None
        if os.path.exists(out):
            try:
                with open(out) as f:
                    rep = json.load(f)
            except Exception:
                rep = None
        return rc, e, rep

    with ThreadPoolExecutor(shards) as ex:
        for shard, (rc, err, rep) in enumerate(ex.map(one, range(shards))):
            tagb = "-".join(build_)
            if rep is not None:
                rep["_leg"], rep["_build"], rep["_cmd"] = leg["name"], tagb, f"{tool} {leg['cmd']} shard {shard}/{of}"
                rep.setdefault("counters", {})[f"{tool}.processes_clean" if rc == 0 else f"{tool}.processes_with_report"] = 1
                res.reports.append(rep)
            report_markers = {"valgrind": ("Invalid ", "uninitialised", "Mismatched", "overlap"), "asan": ("ERROR: AddressSanitizer",), "miri": ("Undefined Behavior", "data race")}
            if rc is None:
                res.reports.append({"evaluations": 0, "counters": {f"{tool}.watchdog": 1}, "notes": [f"{tool} shard {shard}: wall-clock watchdog fired (not a verdict)"], "_build": tagb})
            elif rc != 0 and (rc == 9 or tool == "miri") and any(m in (err or "") for m in report_markers.get(tool, ())):
                first = ""
                for line in (err or "").splitlines():
                    if "swiftness" in line or "/repo/" in line or "Undefined Behavior" in line or "AddressSanitizer" in line:
                        first = re.sub(r"0x[0-9a-fA-F]+", "0x#", line.strip())[:160]
                        break
                res.extra_violations.append({"case_index": shard, "case": f"{tool} report: {first}", "case_class": f"{tool}|{first}", "rc": rc, "stderr": (err or "")[-1500:], "cmd": f"{tool} {leg['cmd']} shard {shard}", "build": tagb})
            elif rc != 0 and rep is None:
                res.reports.append({"evaluations": 0, "counters": {f"{tool}.not_run": 1}, "notes": [f"{tool} shard {shard} not run (exit {rc}): {(err or '')[-200:]}"], "_build": tagb})
    return res


def crash_signature(c):
    err = c["stderr"]
    if "VERIF_CPU_BUDGET_EXCEEDED" in err:
        cls = "cpu-budget-exceeded"
    elif "memory allocation of" in err:
        cls = "allocation-failure-abort"
    elif "stack overflow" in err:
        cls = "stack-overflow"
    elif c["rc"] is not None and c["rc"] < 0:
        cls = f"signal-{-c['rc']}"
    else:
        cls = f"exit-{c['rc']}"
    return cls


def aggregate(pid, p, tier, seed, legs_results, t0, builds_used, extra=None):
    known = [k for k in load_known() if k.get("property") == pid]
    known_active = {k["signature"]: k for k in known if k.get("status") == "known"}
    evaluations = 0
    distinct = 0
    counters = {}
    samples = []
    notes = []
    incon = []
    violations = []  # (sig, count, what, replay)
    foreign = {}
    for lr in legs_results:
        incon += lr.inconclusive
        for rep in lr.reports:
            evaluations += rep.get("evaluations", 0)
            distinct += rep.get("distinct_nontrivial", 0)
            for k, v in rep.get("counters", {}).items():
                key = f"{lr.name}.{k}" if len(legs_results) > 1 else k
                if ".max." in "." + key:
                    counters[key] = max(counters.get(key, 0), v)
                else:
                    counters[key] = counters.get(key, 0) + v
            for s in rep.get("samples", []):
                if len(samples) < 8:
                    samples.append(s)
            for n_ in rep.get("notes", []):
                if n_ not in notes:
                    notes.append(n_)
            incon += [f"{lr.name}: {x}" for x in rep.get("inconclusive", [])]
            for v in rep.get("violations", []):
                m = re.match(r"^(C\d\d)\|", v["sig"])
                if m and m.group(1) != pid:
                    # observed by a shared leg on behalf of another property: reported by that property's check
                    foreign[v["sig"]] = foreign.get(v["sig"], 0) + v["count"]
                    continue
                violations.append((v["sig"], v["count"], v["what"],
                                   {"leg": lr.name, "build": rep.get("_build"), "cmd": rep.get("_cmd"), "case": v.get("replay")}))
        for c in lr.extra_violations:
            sig = f"{pid}|process-died|{crash_signature(c)}|{c.get('case_class','')[:160]}"
            violations.append((sig, 1, f"worker process died ({crash_signature(c)}) while running case {c['case_index']}: {c['case'][:200]}",
                               {"leg": lr.name, "build": c["build"], "cmd": c["cmd"], "case": c}))
    # filter through known findings
    outdir = os.path.join(OUT, pid)
    os.makedirs(outdir, exist_ok=True)
    unlisted = []
    matched = {}
    bysig = {}
    for sig, cnt, what, replay in violations:
        e = bysig.setdefault(sig, [0, what, replay])
        e[0] += cnt
    for sig, (cnt, what, replay) in sorted(bysig.items()):
        if sig in known_active:
            matched[sig] = (cnt, known_active[sig].get("what", what))
            continue
        h = hashlib.sha1(sig.encode()).hexdigest()[:10]
        path = os.path.join(outdir, f"replay-{h}.json")
        with open(path, "w") as f:
            json.dump({"property": pid, "signature": sig, "count": cnt, "what": what, "seed": seed, "tier": tier, **replay}, f, indent=1)
        unlisted.append((sig, cnt, what, path))
    min_eval = p.get("min_evaluations", {}).get(tier, 2)
    if evaluations < min_eval and not unlisted:
        incon.append(f"only {evaluations} evaluations observed (< {min_eval})")
    for need in p.get("required_counters", []):
        if not any((k == need or k.endswith("." + need)) and v > 0 for k, v in counters.items()) and not unlisted:
            incon.append(f"monitor never observed '{need}'")
    wall = round(time.time() - t0, 2)
    ev = {
        "property_id": pid,
        "tier": tier,
        "seed": seed,
        "level": p["level"],
        "coverage": {
            "evaluations": evaluations,
            "distinct_nontrivial": distinct,
            "rule": p["rule"],
            "samples": samples if samples else [{"note": "no sample recorded"}],
            "exhaustive": bool(p.get("exhaustive", False)),
            "counters": counters,
            "builds": builds_used,
            "notes": notes,
            "known_findings_matched": [{"signature": s, "count": c, "what": w} for s, (c, w) in matched.items()],
            "unlisted_violations": [{"signature": s, "count": c, "what": w, "replay": pth} for s, c, w, pth in unlisted],
            "inconclusive": incon,
            "observed_for_other_properties": foreign,
            "technique": p["technique"],
        },
        "assumptions": p.get("assumptions", []),
        "wall_s": wall,
        "violations": len(unlisted),
    }
    if extra:
        ev["coverage"].update(extra)
    os.makedirs(EVID, exist_ok=True)
    tmp = os.path.join(EVID, f".{pid}.json.tmp")
    with open(tmp, "w") as f:
        json.dump(ev, f, indent=1)
    os.replace(tmp, os.path.join(EVID, f"{pid}.json"))
    for s, (c, w) in matched.items():
        print(f"KNOWN-FINDING: property={pid} {w} [signature: {s}; seen {c}x]")
    for s, c, w, pth in unlisted:
        print(f"VIOLATION property={pid} replay={pth}")
        print(f"  -> {w}  [signature: {s}; seen {c}x]")
    if unlisted:
        return 1
    if incon:
        for i in incon[:10]:
            print(f"INCONCLUSIVE property={pid} reason={i}")
        return 2
    print(f"HELD property={pid} tier={tier} seed={seed} evaluations={evaluations} distinct_nontrivial={distinct} wall_s={wall}")
    return 0


def run_check(pid, tier, seed):
    t0 = time.time()
    p = spec.PROPS[pid]
    outdir = os.path.join(OUT, pid)
    os.makedirs(outdir, exist_ok=True)
    legs = [l for l in p["legs"] if tier in l.get("tiers", ("quick", "thorough"))]
    needed = []
    for l in legs:
        for b in l["builds"][tier]:
            needed.append((l["kind"], tuple(b)))
    built = build_many(needed)
    results = []
    fatal = []
    for key, val in built.items():
        if isinstance(val, BuildError):
            fatal.append(str(val))
    if fatal:
        lr = LegResult("build")
        lr.inconclusive = [("build failed: " + f)[:1500] for f in fatal]
        return aggregate(pid, p, tier, seed, [lr], t0, [])
    builds_used = sorted({f"{k}:{'-'.join(b)}" for k, b in built})
    # run legs; simple legs of different builds in parallel when cheap
    for l in legs:
        jobs = [(l, tuple(b)) for b in l["builds"][tier]]
        runner = run_leg_tool if l.get("tool") else (run_leg_sharded if l.get("sharded") else run_leg_simple)
        par = 1 if (l.get("sharded") or l.get("serial") or l.get("tool")) else min(len(jobs), 4)
        merged = LegResult(l["name"])
        with ThreadPoolExecutor(par) as ex:
            futs = [ex.submit(runner, pid, l, b, built[(l["kind"], b)], seed, tier, outdir) for (l, b) in jobs]
            for f in futs:
                r = f.result()
                merged.reports += r.reports
                merged.inconclusive += r.inconclusive
                merged.extra_violations += r.extra_violations
        results.append(merged)
    return aggregate(pid, p, tier, seed, results, t0, builds_used)


def replay(path):
    with open(path) as f:
        r = json.load(f)
    pid = r["property"]
    print(f"replaying {pid}: {r['what']}\n  signature: {r['signature']}\n  case: {json.dumps(r.get('case'))[:2000]}")
    os.environ["VERIF_SEED"] = str(r.get("seed", 1))
    rc = run_check(pid, r.get("tier", "quick"), int(r.get("seed", 1)))
    return rc


def main():
    args = sys.argv[1:]
    if not args:
        print(__doc__)
        return 2
    if args[0] == "--replay":
        return replay(args[1])
    pid = args[0]
    tier = os.environ.get("VERIF_TIER", "quick")
    seed = int(os.environ.get("VERIF_SEED", "1") or "1")
    i = 1
    while i < len(args):
        if args[i] == "--tier":
            tier = args[i + 1]; i += 2
        elif args[i] == "--seed":
            seed = int(args[i + 1]); i += 2
        elif args[i] == "--replay":
            return replay(args[i + 1])
        else:
            i += 1
    if pid == "setup":
        return setup()
    if pid not in spec.PROPS:
        print(f"unknown property {pid}")
        return 2
    try:
        return run_check(pid, tier, seed)
    except BuildError as e:
        print(f"INCONCLUSIVE property={pid} reason=build: {str(e)[:500]}")
        return 2


def setup():
    """setup_cmd: vendor directory + all harness variants prebuilt"""
    ensure_vendor()
    items = []
    for pid, p in spec.PROPS.items():
        for l in p["legs"]:
            for tier in ("quick", "thorough"):
                for b in l["builds"].get(tier, []):
                    items.append((l["kind"], tuple(b)))
    res = build_many(items, max_parallel=5)
    bad = [f"{k}: {v}" for k, v in res.items() if isinstance(v, BuildError)]
    for b in bad:
        log(b)
    return 1 if bad else 0


if __name__ == "__main__":
    sys.exit(main())
